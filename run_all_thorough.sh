#!/bin/sh
# runs every claimed check's thorough tier, one after the other; one line per check.
# DSIM=<binary> uses an already built simulator instead of rebuilding through ./check
cd "$(dirname "$0")"
for c in $(python3 -c "import json;print(' '.join(x['property_id'] for x in json.load(open('MANIFEST.json'))['checks']))") "$@"; do
  s=$(date +%s)
  if [ -n "$DSIM" ]; then
    out=$("$DSIM" check $c --tier thorough --seed ${VERIF_SEED:-1} 2>&1); code=$?
  else
    out=$(./check $c thorough 2>&1); code=$?
  fi
  e=$(date +%s)
  echo "$c exit=$code $((e-s))s $(echo "$out" | grep -E '^VIOLATION|HARNESS' | head -2 | tr '\n' ' ') $(echo "$out" | grep -c '^KNOWN-FINDING') known | $(echo "$out" | grep 'cases in' | tail -1)"
done
