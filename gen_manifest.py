#!/usr/bin/env python3
"""Regenerates MANIFEST.json from the table below (kept in one place so it stays valid)."""
import json, subprocess
CLAIMED = {
 "C12": dict(cat="exploration", tech="deterministic simulation of histories over the FastCheckCache seam (persistent, lossy cache; build - fast check - edit - rebuild - fast check), compared with cache-less runs on the same graph and under another hash seed",
   text="Histories of length 2-4 over generated TypeScript packages (one or two registry packages, optionally a workspace member analysed with them, a two-version dependency whose old version another package pins, JavaScript entrypoints, cross-package barrels); after every fast check with the persistent cache the same graph is fast-checked without a cache (transparency of emitted output), again under another hash seed (determinism), and checked for the per-package all-or-nothing rule in both states and for recorded dependencies matching the emitted text. Sampled by seed.",
   note="The generated declarations are a small language sufficient for emit/diagnostic outcomes; with a cache, diagnostics are compared as presence only (the cached path reports a placeholder).", ref="DESIGN.md §3 C12"),

 "C01": dict(cat="exploration", tech="deterministic simulation: worlds built by the real builder under seeded schedules, compared with a reference model of each module's dependencies (from the generator's structured description) and a closure check over followed edges, redirects and the loader's request log",
   text="(A) for every loaded module with a structured description the recorded dependency map equals the model's under the resolver and graph kind; static wins is asserted as the statement puts it (the type-only-static + dynamic-code case is a listed finding); (B) the graph is exactly reachable-and-closed along the edges the kind and options follow, every loader request has an entry or redirect and every redirect is recorded; (C) what the world serves as a module is a module entry (root defaults also through explicit redirects; plainly imported script modules are modules unless unparsable). Sampled by seed over import forms x media types x schemes x kinds x options; orphans left behind by an importer that turned into an error are a listed finding.",
   note="The model never parses source text; URL joining is delegated to deno_graph::resolve_import. Same-attribute proviso enforced by the generator (source-phase imports only for targets not imported otherwise; no @ts-types on dynamic imports).", ref="DESIGN.md §3 C01"),
 "C13": dict(cat="exploration", tech="deterministic simulation: differential between four renderings of one simulated registry (no embedded info, moduleGraph2, round-tripped moduleGraph2, moduleGraph1) crossed with per-file cache states and seeded completion orders of the deferred content loads",
   text="The graph built through the manifest shortcut must equal the graph built by parsing the same package sources (strictly for moduleGraph2, on everything but the recomputed @deno-types range for moduleGraph1); every ModuleInfo a run produces is round-tripped through JSON. Sampled by seed.",
   note="Embedded information is produced by the real analyser from sources that parse; the value space of ModuleInfo is the one the generated sources reach.", ref="DESIGN.md §3 C13"),

 "C05": dict(cat="exploration", tech="deterministic simulation: online monitor over the Loader and Locker seam histories under seeded schedules, with tampered bytes in the cache and remote tiers, plus a record-then-verify history (second build with the lockfile the first wrote)",
   text="Every loader request and every locker call of a build is checked against the monitor rules (checksum presented, retry discipline, rejected content never admitted, checksummed redirects rejected, new checksums recorded exactly once with the SHA-256 of the served bytes, every newly delivered version manifest of the last pass handed to the lockfile, lockfile entries never overwritten), then the unchanged world is built again with the lockfile just written. Sampled by seed over lockfile contents x tampering x load paths.",
   note="The simulated loader is honest (verifies the presented checksum against the bytes it returns); vendored manifests (lockfileChecksum) are not verified, as in the CLI. The cached-version probe is exempt from the presentation rule.", ref="DESIGN.md §3 C05"),
 "C06": dict(cat="exploration", tech="deterministic simulation: history monitor over Reporter::on_resolve events against a five-tier selection reference, registry states enumerated systematically through the simulated registry and the real builder",
   text="A bounded family of registry states (63 version subsets x yanked patterns x dates x 8 requirements x cutoff x exclusion = 36,288 states; fully in thorough, strided in quick) plus seeded multi-requirement / lockfile-seeded / cached / stale-metadata worlds; every resolution event and the final package table, yanked set and not-found errors are compared with the reference.",
   note="deno_semver's matching and ordering are trusted; the reference uses the metadata body delivered to the build before each event.", ref="DESIGN.md §3 C06"),
 "C07": dict(cat="exploration", tech="deterministic simulation: generated registries served by the simulated loader under seeded schedules; registry model compared with redirects, package table, per-package dependency sets and URL<->nv conversion",
   text="For generated registries (name-prefix collisions, pre-release versions, string and map exports, cross-package and https imports) every resolved jsr: specifier, unknown-export error, package_exports, packages_with_deps and URL attribution (conversion round trip, look-alike URLs and version segments, and the checksum presented for every registry file coming from the manifest of the version its URL names) is compared with the registry model. Sampled by seed.",
   note="Version selection itself is C06's subject; per-package dependencies are bounded below by loaded modules and above by all files of the package.", ref="DESIGN.md §3 C07"),

 "C17": dict(cat="exploration", tech="deterministic simulation: two-run relation prune_types(build All) vs build CodeOnly, each run under its own seeded schedule and hash seed",
   text="For generated worlds satisfying the statement's proviso, the pruned full graph and an independently scheduled code-only build are compared on entries, redirects, code edges and validation verdict, and the pruned graph must carry no type data. Sampled by seed.",
   note="Frozen cache and identity-keyed answers make the two runs see the same sources. Bounds: builds follow dynamic dependencies (prune_types cannot know skip_dynamic_deps), redirect limit kept away from generated chain lengths, no lockfile, structural comparison skipped when configured (type) imports exist. Two context-dependence deviations are listed as known findings.", ref="DESIGN.md §3 C17"),
 "C18": dict(cat="exploration", tech="deterministic simulation: graphs built under seeded schedules; segment compared with the original (lookups, validation over all walk options) and with an independently scheduled direct build of the segment roots",
   text="(i) every lookup and every walk-validation answer inside the segment equals the original's; (ii) for root sets that are not a subset of the original roots, the segment equals a direct build of those roots. Sampled by seed; known context-dependence deviations (root defaults, attribute-less JSON in dynamic branches, jsr version unification) are listed findings.",
   note="Same-attribute proviso enforced by the generator; segment roots chosen among loaded (non-asset) modules; no lockfile.", ref="DESIGN.md §3 C18"),
 "C19": dict(cat="exploration", tech="deterministic simulation of histories on one graph: successive builds over a drawn root partition, rebuild with known roots, edit + reload, each operation under its own seeded schedule; compared with from-scratch builds",
   text="Histories (partition builds, idempotent rebuild, edit one module then reload it) are compared with at-once / from-scratch builds of the same (edited) world. Sampled by seed; deviations caused by first-visitor context and visit-order-dependent jsr unification are listed findings.",
   note="Partition equality ignores which importer is named as referrer; reload oracle applies when the edited module is in the graph.", ref="DESIGN.md §3 C19"),
 "C20": dict(cat="exploration", tech="deterministic simulation with content faults at the loader seam (torn / truncated / bit-flipped / invalid byte sequences, charset labels) and an independent reference decoder over the seam's byte log",
   text="Every text module admitted to the graph must hold exactly the reference decoding of the bytes the seam logged, unknown charset labels must become error entries, original bytes must be absent or byte-equal to the served bytes, size must equal the text length. Sampled by seed over encodings x labels x media x origin x registry content-load path, plus a systematic torn-read family (sample x encoding x BOM x label x truncation offset 0..63, strided in quick, complete in thorough).",
   note="Reference decoder is std-only (WHATWG semantics restated for UTF-8/UTF-16/windows-1252).", ref="DESIGN.md §3 C20"),

 "C02": dict(cat="exploration", tech="deterministic simulation: graphs built by the real builder under seeded schedules from worlds with placed failures; validation verdict compared with a declarative reachable-failure set over all walk options",
   text="On every graph the simulator produces (failures placed behind static, dynamic, type-only, types-dependency edges and redirect chains), for all 36 walk-option combinations and 4 root subsets validate() must be Err exactly when the reference reachable-failure set is non-empty and must return a member of it. The verdict side is exact per graph; the population of graphs is sampled by seed.",
   note="The reference shares no code with the iterators; edge selection follows the walk options, the import-policy errors and the treatment of missing modules under follow_dynamic are stated from the property text (a literal file: URL is a text that parses as one; a visited missing module is reported at least once); a world-level verdict oracle (independent of the graph's own records) is part of C01's model when claimed.", ref="DESIGN.md §3 C02"),
 "C14": dict(cat="exploration", tech="deterministic simulation: systematic redirect family (chains, cycles, lockfile-seeded, implicit) served by the simulated loader under seeded schedules; lookups compared with a reference walk",
   text="All members of a bounded redirect family (chain length 0..13 x end kind x max_redirects x lockfile mode; cycles 1..12 x tail 0..3; implicit redirects) plus seeded worlds are built and every lookup API is compared with a reference walk for every root, dependency target and redirect source. The family is enumerated completely; seeded worlds are sampled.",
   note="Reference = follow the graph's redirect entries with a seen-set and no hop limit, entries first.", ref="DESIGN.md §3 C14"),
 "C15": dict(cat="exploration", tech="deterministic simulation for the population of graphs (seeded schedules, world-level failures) + declarative least-fixpoint reference for the walk",
   text="For each produced graph all 36 walk-option combinations x 4 root subsets (+ skip sets) are compared with an order-free fixpoint: no duplicate, set equality with entry kinds, errors() equal as a multiset.",
   note="The walk is synchronous; simulation contributes graphs with error slots, redirect entries, external assets, types-only substitutions, dynamic branches that valid-input generators do not produce.", ref="DESIGN.md §3 C15"),

 "C03": dict(cat="fault_enumeration", tech="deterministic simulation with fault injection: a fault of every kind at every request the build issues (first-order sweep), sampled multi-fault and second-order plans, seeded schedules",
   text="For small generated base worlds (plain URL and JSR registry) every request identity the fault-free build issues is faulted with every applicable fault kind, under the baseline schedule and a drawn one; seeded cases add multi-fault and second-order plans. Oracles: no panic, termination (scheduler step bound + operation bound), no unfinished entry, requests accounted for, serialisation Ok, hard failures become error entries with an importing referrer, every non-root error entry carries a referrer, every redirect of the graph was made by the loader / lockfile / a jsr resolution, roots are requested with the dynamic flag the build was started with (also after a restart), npm dependency-graph failures of dynamic-only imports become error entries, successful cache-busting retry is invisible, locality of everything independent of the fault. Exhaustive only per base world and first order; the population of base worlds is sampled.",
   note="Trusts the simulated seams to honour the documented embedder contracts; response faults only (every request is answered); locality asserted only where no transitive importer is affected.", ref="DESIGN.md §3 C03"),
 "C04": dict(cat="exploration", tech="deterministic simulation: differential over seeded schedules (completion order, suspension points, executor mode, spurious wakes) and hasher seeds against a baseline schedule",
   text="Every drawn schedule and hash seed must give the same canonical observation (graph JSON, slots, error entries with referrers, packages, lockfile writes) as the baseline schedule on the same world and options; for systematic tiny worlds (<= 4 modules) the whole scheduler choice tree is enumerated depth-first up to a leaf budget. Otherwise seeded search: evidence counts distinct (world, event-order) pairs and how many worlds were enumerated completely.",
   note="Loader answers are a function of request identity and the cache tier is frozen, so the environment is the same across schedules; hash keys are controlled through getrandom interposition.", ref="DESIGN.md §3 C04"),
}
NA_FAMILY = {
 "C08": "pure synchronous function of a program text (dependency analysis): no schedule, fault, clock or history for a simulator to control",
 "C09": "pure synchronous function of (graph, sources) to emitted text: quantifies over programs only",
 "C10": "syntactic post-condition on the output of a pure function over all programs",
 "C11": "relational post-condition input/output of a pure function over all programs",
 "C16": "symbol tables and export resolution are synchronous functions of parsed modules; termination is a property of a recursive function, not of any interleaving",
}
props=[json.loads(l) for l in open('/verif/properties.jsonl')]
checks=[]; na=[]
for p in props:
  i=p['id']
  if i in CLAIMED:
    c=CLAIMED[i]
    checks.append({
      "property_id": i,
      "quick_cmd": f"./check {i} quick",
      "thorough_cmd": f"./check {i} thorough",
      "evidence_file": f"/verif/evidence/{i}.json",
      "replay_cmd_template": "./sim/target/release/dsim replay {path}",
      "engine": "dsim",
      "level_claimed": {"category": c["cat"], "text": c["text"], "design_ref": c["ref"]},
      "level_note": c["note"],
      "technique": c["tech"],
    })
  elif i in NA_FAMILY:
    na.append({"property_id": i, "reason": NA_FAMILY[i]})
  else:
    na.append({"property_id": i, "reason": "not claimed yet: the simulated check for this property is not built/validated at this commit (planned, see DESIGN.md §3)"})
hooks_commits=[]
m={
 "version": 1,
 "setup_cmd": "./setup.sh",
 "hooks": {"guard": "--cfg deno_graph_verif", "enable": "none needed: every seam the simulator uses is a public trait of deno_graph (Loader, Executor, Locker, NpmResolver, Resolver, FileSystem, Reporter, ModuleAnalyzer, FastCheckCache); hash keys are controlled by defining getrandom in the simulator binary. No source hooks were added to /repo.",
   "baseline_off_cmd": "cd /repo && cargo test --workspace --no-fail-fast --offline", "source_commits": hooks_commits, "add_only": True},
 "engines": [{"name": "dsim", "path": "/verif/sim", "serves_properties": sorted(CLAIMED), "kind_free_text": "deterministic simulator: seeded scheduler + executor + simulated loader/registry/cache/lockfile/npm/fs seams, fault plans, choice-tape shrinking and replay"}],
 "checks": checks,
 "not_applicable": na,
 "notes": "All checks: exit 0 = held (KNOWN-FINDING lines for listed findings), exit 1 + VIOLATION line = violation reproduced by a fresh-process replay, exit 2 = harness error. VERIF_SEED and VERIF_TIER are honoured. Genuine defects repaired in /repo are the commits whose message starts with 'fix:'; see known_findings.json.",
}
json.dump(m, open('/verif/MANIFEST.json','w'), indent=1)
print("claimed", sorted(CLAIMED), "na", [x['property_id'] for x in na])
