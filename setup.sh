#!/bin/sh
HERE="$(cd "$(dirname "$0")" && pwd)"
export CARGO_NET_OFFLINE=true
cd "$HERE/sim" && cargo build --release --offline
