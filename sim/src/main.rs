mod checks;
mod exec;
mod framework;
mod hashseed;
mod model;
mod observe;
mod rng;
mod run;
mod seams;
mod refwalk;
mod shape;
mod tape;
mod world;

use framework::Tier;

fn usage() -> ! {
  eprintln!(
    "usage: dsim check <ID> [--tier quick|thorough] [--seed N]\n       dsim replay <file> [--quiet]\n       dsim selftest\n       dsim dump <ID> <run-index> [--seed N]"
  );
  std::process::exit(2);
}

fn main() {
  // panics inside simulated runs are caught and reported; keep stderr quiet
  std::panic::set_hook(Box::new(|_| {}));
  hashseed::init_process_globals();
  let args: Vec<String> = std::env::args().collect();
  if args.len() < 2 {
    usage();
  }
  let specs = checks::all_specs();
  let flag = |name: &str| -> Option<String> {
    args
      .iter()
      .position(|a| a == name)
      .and_then(|i| args.get(i + 1).cloned())
  };
  let seed: u64 = flag("--seed")
    .or_else(|| std::env::var("VERIF_SEED").ok())
    .and_then(|s| s.parse().ok())
    .unwrap_or(1);
  let tier = match flag("--tier")
    .or_else(|| std::env::var("VERIF_TIER").ok())
    .as_deref()
  {
    Some("thorough") => Tier::Thorough,
    _ => Tier::Quick,
  };
  match args[1].as_str() {
    "check" => {
      let Some(id) = args.get(2) else { usage() };
      let Some(spec) = specs.iter().find(|s| s.id == id) else {
        eprintln!("unknown check {}", id);
        std::process::exit(2);
      };
      println!("VERIF_SEED={}", seed);
      let r = framework::run_check(spec, tier, seed);
      std::process::exit(r.exit_code);
    }
    "replay" => {
      let Some(path) = args.get(2) else { usage() };
      let quiet = args.iter().any(|a| a == "--quiet");
      std::process::exit(framework::replay_file(&specs, path, quiet));
    }
    "dump" => {
      // print the recorded tapes + outcome of one seeded case
      let Some(id) = args.get(2) else { usage() };
      let idx: u64 = args.get(3).and_then(|s| s.parse().ok()).unwrap_or(0);
      let Some(spec) = specs.iter().find(|s| s.id == id) else {
        usage()
      };
      let mut tape =
        tape::Tape::generate(framework::run_seed_for(spec.id, seed, idx));
      let out = (spec.run_case)(&mut tape, tier, &Default::default());
      println!(
        "{}",
        serde_json::to_string_pretty(&serde_json::json!({
          "violations": out.violations,
          "counters": out.counters,
          "sample": out.sample,
          "tapes": tape.rec,
          "harness_error": out.harness_error,
        }))
        .unwrap()
      );
    }
    "build-world" => {
      // debugging aid: build the world stored in a replay file's detail and
      // print the serialised graph (optionally segment at given roots)
      let Some(path) = args.get(2) else { usage() };
      let v: serde_json::Value =
        serde_json::from_str(&std::fs::read_to_string(path).unwrap()).unwrap();
      let d = &v["detail"];
      let wv = if d.get("world").is_some() { &d["world"] } else { &d["case"]["world"] };
      let sv = if d.get("sem").is_some() { &d["sem"] } else { &d["case"]["sem"] };
      let mut world: world::World = serde_json::from_value(wv.clone()).unwrap();
      let mut sem: run::SemOpts = serde_json::from_value(sv.clone()).unwrap();
      if let Some(k) = flag("--kind") {
        sem.kind = k.parse().unwrap();
      }
      if let Some(r) = flag("--roots") {
        world.roots = r.split(',').map(|s| s.to_string()).collect();
      }
      let seg: Option<Vec<String>> =
        flag("--segment").map(|r| r.split(',').map(|s| s.to_string()).collect());
      let r = checks::common::build_fresh(
        &world,
        &Default::default(),
        &sem,
        &Default::default(),
        tape::Tape::replay(Default::default()),
        0,
        true,
        move |session, report, _| {
          let mut out = String::new();
          for l in &report.loads {
            out.push_str(&format!("LOAD {} sum={:?} -> {}\n", l.id.label(), l.checksum, l.answer));
          }
          for (nv, deps) in session.graph.packages.packages_with_deps() {
            out.push_str(&format!(
              "DEPS {} -> {:?}\n",
              nv,
              deps.map(|d| d.req.to_string()).collect::<Vec<_>>()
            ));
          }
          if let Some(seg) = seg {
            let roots: Vec<deno_graph::ModuleSpecifier> = seg
              .iter()
              .map(|s| deno_graph::ModuleSpecifier::parse(s).unwrap())
              .collect();
            let g = session.graph.segment(&roots);
            out.push_str("SEGMENT ");
            out.push_str(&serde_json::to_string_pretty(&g).unwrap());
          }
          out
        },
      )
      .unwrap()
      .0;
      println!("{}", serde_json::to_string_pretty(&r.obs["serialized"]).unwrap());
      println!("{}", r.extra);
    }
    "selftest" => {
      std::process::exit(selftest(&specs, seed));
    }
    _ => usage(),
  }
}

/// Determinism proof of the harness: every case is executed twice from its
/// seed and once more from its recorded tape; outcomes (violations, counters,
/// recorded tapes) must be identical. Run it in several processes and at
/// several worker counts and diff the printed digest.
fn selftest(specs: &[framework::CheckSpec], seed: u64) -> i32 {
  let n: u64 = std::env::var("SELFTEST_CASES")
    .ok()
    .and_then(|s| s.parse().ok())
    .unwrap_or(200);
  let workers: usize = std::env::var("VERIF_WORKERS")
    .ok()
    .and_then(|s| s.parse().ok())
    .unwrap_or(16);
  let mut bad = 0;
  let mut digest = 0u64;
  for spec in specs {
    let results = std::sync::Mutex::new(vec![0u64; n as usize]);
    let next = std::sync::atomic::AtomicU64::new(0);
    let badc = std::sync::atomic::AtomicU64::new(0);
    std::thread::scope(|sc| {
      for _ in 0..workers {
        sc.spawn(|| loop {
          let idx = next.fetch_add(1, std::sync::atomic::Ordering::Relaxed);
          if idx >= n {
            break;
          }
          let rs = framework::run_seed_for(spec.id, seed, idx);
          let fingerprint = |out: &framework::CaseOutcome,
                             rec: &tape::Tapes|
           -> u64 {
            let s = serde_json::json!({
              "v": out.violations,
              "c": out.counters,
              "t": rec,
              "d": out.distinct.iter().map(|(k, v)| (k.to_string(), v.clone())).collect::<Vec<_>>(),
              "h": out.harness_error,
            })
            .to_string();
            rng::hash_str(99, &s)
          };
          let mut t1 = tape::Tape::generate(rs);
          let o1 = (spec.run_case)(&mut t1, Tier::Quick, &Default::default());
          let f1 = fingerprint(&o1, &t1.rec);
          let mut t2 = tape::Tape::generate(rs);
          let o2 = (spec.run_case)(&mut t2, Tier::Quick, &Default::default());
          let f2 = fingerprint(&o2, &t2.rec);
          let mut t3 = tape::Tape::replay(t1.rec.clone());
          let o3 = (spec.run_case)(&mut t3, Tier::Quick, &Default::default());
          let f3 = fingerprint(&o3, &t3.rec);
          if f1 != f2 || f1 != f3 {
            badc.fetch_add(1, std::sync::atomic::Ordering::Relaxed);
            eprintln!(
              "NONDETERMINISM {} case {}: gen={:x} gen2={:x} replay={:x}",
              spec.id, idx, f1, f2, f3
            );
          }
          results.lock().unwrap()[idx as usize] = f1;
        });
      }
    });
    bad += badc.load(std::sync::atomic::Ordering::Relaxed);
    for f in results.into_inner().unwrap() {
      digest = rng::mix(digest, f);
    }
    println!("selftest {}: {} cases, digest so far {:016x}", spec.id, n, digest);
  }
  println!("SELFTEST-DIGEST {:016x} nondeterministic={}", digest, bad);
  if bad > 0 { 2 } else { 0 }
}
