//! The choice tape: five labelled streams of draws. In generation mode draws
//! come from a PRNG and are recorded; in replay mode they come from the
//! recorded tape and a draw past the end returns 0. 0 is always the simplest
//! choice.

use crate::rng::Xoshiro;
use crate::rng::mix;
use serde::Deserialize;
use serde::Serialize;

#[derive(Clone, Copy, Debug, PartialEq, Eq)]
pub enum Stream {
  World = 0,
  Options = 1,
  Faults = 2,
  Schedule = 3,
  Hash = 4,
}

pub const STREAMS: [Stream; 5] = [
  Stream::World,
  Stream::Options,
  Stream::Faults,
  Stream::Schedule,
  Stream::Hash,
];

impl Stream {
  pub fn name(self) -> &'static str {
    match self {
      Stream::World => "world",
      Stream::Options => "options",
      Stream::Faults => "faults",
      Stream::Schedule => "schedule",
      Stream::Hash => "hash",
    }
  }
}

#[derive(Clone, Debug, Default, Serialize, Deserialize, PartialEq, Eq)]
pub struct Tapes {
  pub world: Vec<u32>,
  pub options: Vec<u32>,
  pub faults: Vec<u32>,
  pub schedule: Vec<u32>,
  pub hash: Vec<u32>,
}

impl Tapes {
  pub fn get(&self, s: Stream) -> &Vec<u32> {
    match s {
      Stream::World => &self.world,
      Stream::Options => &self.options,
      Stream::Faults => &self.faults,
      Stream::Schedule => &self.schedule,
      Stream::Hash => &self.hash,
    }
  }
  pub fn get_mut(&mut self, s: Stream) -> &mut Vec<u32> {
    match s {
      Stream::World => &mut self.world,
      Stream::Options => &mut self.options,
      Stream::Faults => &mut self.faults,
      Stream::Schedule => &mut self.schedule,
      Stream::Hash => &mut self.hash,
    }
  }
  pub fn total_len(&self) -> usize {
    STREAMS.iter().map(|s| self.get(*s).len()).sum()
  }
}

pub struct Tape {
  /// `Some` in generation mode.
  rngs: Option<[Xoshiro; 5]>,
  /// In replay mode: the source. In generation mode: unused.
  src: Tapes,
  pos: [usize; 5],
  /// What was actually drawn (both modes) - this is the normalised tape.
  pub rec: Tapes,
  /// number of alternatives of every `schedule` draw (for enumeration)
  pub schedule_arity: Vec<u32>,
  /// Mixed mode: streams in `fresh_mask` come from the PRNG, the rest from
  /// `src`.
  mixed: bool,
  fresh_mask: u8,
}

impl Tape {
  pub fn generate(run_seed: u64) -> Self {
    let rngs = [
      Xoshiro::new(mix(run_seed, 1)),
      Xoshiro::new(mix(run_seed, 2)),
      Xoshiro::new(mix(run_seed, 3)),
      Xoshiro::new(mix(run_seed, 4)),
      Xoshiro::new(mix(run_seed, 5)),
    ];
    Self {
      rngs: Some(rngs),
      src: Default::default(),
      pos: [0; 5],
      rec: Default::default(),
      schedule_arity: Vec::new(),
      mixed: false,
      fresh_mask: 0,
    }
  }

  pub fn replay(src: Tapes) -> Self {
    Self {
      rngs: None,
      src,
      pos: [0; 5],
      rec: Default::default(),
      schedule_arity: Vec::new(),
      mixed: false,
      fresh_mask: 0,
    }
  }

  /// Replay `src` for the streams in it, but generate (from `run_seed`) for
  /// streams listed in `fresh`.
  pub fn replay_with_fresh(
    src: Tapes,
    run_seed: u64,
    fresh: &[Stream],
  ) -> Self {
    let mut t = Self::generate(run_seed);
    t.src = src;
    t.fresh_mask = 0;
    for s in fresh {
      t.fresh_mask |= 1 << (*s as usize);
    }
    t.mixed = true;
    t
  }

  /// Uniform draw in 0..n. n == 0 or 1 returns 0 without consuming.
  pub fn draw(&mut self, s: Stream, n: u32) -> u32 {
    if n <= 1 {
      return 0;
    }
    let i = s as usize;
    let from_rng = match (&self.rngs, self.mixed) {
      (Some(_), false) => true,
      (Some(_), true) => self.fresh_mask & (1 << i) != 0,
      (None, _) => false,
    };
    let v = if from_rng {
      self.rngs.as_mut().unwrap()[i].below(n)
    } else {
      let p = self.pos[i];
      self.pos[i] += 1;
      match self.src.get(s).get(p) {
        Some(v) => *v % n,
        None => 0,
      }
    };
    self.rec.get_mut(s).push(v);
    if s == Stream::Schedule {
      self.schedule_arity.push(n);
    }
    v
  }

  /// True with probability num/den; 0 on the tape is `false`.
  pub fn chance(&mut self, s: Stream, num: u32, den: u32) -> bool {
    if num == 0 {
      return false;
    }
    let v = self.draw(s, den);
    v >= den - num.min(den)
  }

  /// Draw in lo..=hi, lo being the simplest.
  pub fn range(&mut self, s: Stream, lo: u32, hi: u32) -> u32 {
    lo + self.draw(s, hi - lo + 1)
  }

  /// Draw a size biased to small values: in lo..=hi.
  pub fn small(&mut self, s: Stream, lo: u32, hi: u32) -> u32 {
    let a = self.range(s, lo, hi);
    let b = self.range(s, lo, hi);
    a.min(b)
  }

  pub fn pick<'a, T>(&mut self, s: Stream, items: &'a [T]) -> &'a T {
    let i = self.draw(s, items.len() as u32) as usize;
    &items[i]
  }

  pub fn is_replay(&self) -> bool {
    self.rngs.is_none()
  }
}
