//! Simulated implementations of every trait deno_graph talks to the outside
//! world through.

use std::borrow::Cow;
use std::cell::RefCell;
use std::collections::BTreeMap;
use std::collections::HashMap;
use std::ffi::OsStr;
use std::path::Path;
use std::path::PathBuf;
use std::rc::Rc;
use std::sync::Arc;
use std::sync::Mutex;
use std::sync::atomic::AtomicU64;
use std::sync::atomic::Ordering;

use deno_error::JsErrorBox;
use deno_graph::ModuleSpecifier;
use deno_graph::NpmLoadError;
use deno_graph::NpmResolvePkgReqsResult;
use deno_graph::Range;
use deno_graph::analysis::ModuleAnalyzer;
use deno_graph::analysis::ModuleInfo;
use deno_graph::source::CacheResponse;
use deno_graph::source::CacheSetting;
use deno_graph::source::ChecksumIntegrityError;
use deno_graph::source::EnsureCachedFuture;
use deno_graph::source::LoadError;
use deno_graph::source::LoadFuture;
use deno_graph::source::LoadOptions;
use deno_graph::source::LoadResponse;
use deno_graph::source::LoadResult;
use deno_graph::source::Loader;
use deno_graph::source::LoaderChecksum;
use deno_graph::source::Locker;
use deno_graph::source::NpmResolver;
use deno_graph::source::Reporter;
use deno_graph::source::ResolutionKind;
use deno_graph::source::ResolveError;
use deno_graph::source::Resolver;
use deno_media_type::MediaType;
use deno_semver::package::PackageNv;
use deno_semver::package::PackageReq;
use futures::FutureExt;
use sys_traits::FileType;
use sys_traits::FsDirEntry;
use sys_traits::boxed::BoxedFsDirEntry;
use sys_traits::boxed::BoxedFsMetadataValue;
use sys_traits::boxed::FsReadDirBoxed;

use crate::exec::OpKind;
use crate::exec::Sim;
use crate::rng::Xoshiro;
use crate::world::CS_ONLY;
use crate::world::CS_RELOAD;
use crate::world::CS_USE;
use crate::world::Entry;
use crate::world::Fault;
use crate::world::FaultPlan;
use crate::world::NpmCfg;
use crate::world::ReqId;
use crate::world::ResolverCfg;
use crate::world::World;

pub fn cs_code(cs: CacheSetting) -> u8 {
  match cs {
    CacheSetting::Only => CS_ONLY,
    CacheSetting::Use => CS_USE,
    CacheSetting::Reload => CS_RELOAD,
  }
}

/// One loader request as seen at the seam, with what was answered.
#[derive(Clone, Debug)]
pub struct LoadRecord {
  pub seq: u64,
  pub id: ReqId,
  pub checksum: Option<String>,
  pub in_dynamic_branch: bool,
  pub was_dynamic_root: bool,
  /// "module" | "redirect" | "external" | "missing" | "error" | "integrity"
  pub answer: &'static str,
  /// bytes served (module answers only)
  pub served: Option<Arc<[u8]>>,
  pub final_url: Option<String>,
  pub fault: Option<Fault>,
}

#[derive(Default)]
pub struct LoaderLog {
  pub records: Vec<LoadRecord>,
  pub counts: HashMap<(String, u8, bool), u32>,
  pub faults_fired: BTreeMap<&'static str, u64>,
}

pub struct SimLoader {
  pub sim: Rc<Sim>,
  pub world: Rc<World>,
  pub plan: Rc<FaultPlan>,
  pub log: Rc<RefCell<LoaderLog>>,
  pub max_redirects: usize,
  /// when false the loader does not verify checksums (a vendoring loader)
  pub verify_checksums: bool,
}

fn other_err(msg: &str) -> LoadError {
  LoadError::Other(Arc::new(JsErrorBox::generic(msg.to_string())))
}

fn apply_content_fault(bytes: &[u8], f: &Fault) -> Vec<u8> {
  match f {
    Fault::Truncate(k) => {
      let k = (*k as usize) % (bytes.len() + 1);
      bytes[..k].to_vec()
    }
    Fault::BitFlip(p) => {
      let mut b = bytes.to_vec();
      if !b.is_empty() {
        let i = (*p as usize / 8) % b.len();
        b[i] ^= 1 << (p % 8);
      }
      b
    }
    Fault::Garbage(seed) => {
      let mut r = Xoshiro::new(*seed as u64);
      let n = (r.below(64) + 1) as usize;
      (0..n).map(|_| r.below(256) as u8).collect()
    }
    Fault::Unparsable => {
      let mut b = bytes.to_vec();
      b.extend_from_slice(b"\nexport const = ;;; {{{ (\n");
      b
    }
    Fault::WrongShape => b"{\"versions\": 5, \"exports\": [1,2], \"manifest\": \"x\"}".to_vec(),
    Fault::MalformedJson => b"{ not json".to_vec(),
    _ => bytes.to_vec(),
  }
}

impl SimLoader {
  /// Decide the answer for a request: world entry, then the fault plan.
  fn answer(
    &self,
    url: &ModuleSpecifier,
    options: &LoadOptions,
    ensure: bool,
  ) -> (LoadResult, LoadRecord) {
    let cs = cs_code(options.cache_setting);
    let nth = {
      let mut log = self.log.borrow_mut();
      let c = log
        .counts
        .entry((url.to_string(), cs, ensure))
        .or_insert(0);
      let n = *c;
      *c += 1;
      n
    };
    let id = ReqId {
      url: url.to_string(),
      cs,
      nth,
      ensure,
    };
    let fault = self.plan.get(&id).cloned();
    let mut rec = LoadRecord {
      seq: self.sim.next_seq(),
      id: id.clone(),
      checksum: options.maybe_checksum.as_ref().map(|c| c.as_str().to_string()),
      in_dynamic_branch: options.in_dynamic_branch,
      was_dynamic_root: options.was_dynamic_root,
      answer: "missing",
      served: None,
      final_url: None,
      fault: fault.clone(),
    };
    let mut entry = if url.scheme() == "data" {
      match deno_graph::source::load_data_url(url) {
        Ok(Some(LoadResponse::Module {
          content,
          maybe_headers,
          ..
        })) => Entry::Module {
          bytes: content.to_vec(),
          headers: maybe_headers
            .map(|h| h.into_iter().collect())
            .unwrap_or_default(),
          final_url: None,
        },
        Ok(_) => Entry::Missing,
        Err(e) => Entry::Error(e.to_string()),
      }
    } else {
      self.world.lookup(url.as_str(), cs)
    };
    let mut forced_integrity = false;
    if let Some(f) = &fault {
      let fired = match f {
        Fault::NotFound => {
          entry = Entry::Missing;
          true
        }
        Fault::Error => {
          entry = Entry::Error("injected loader error".into());
          true
        }
        Fault::ChecksumIntegrity => {
          forced_integrity = true;
          true
        }
        Fault::RedirectTo(to) => {
          entry = Entry::Redirect(to.clone());
          true
        }
        Fault::External => {
          entry = Entry::External;
          true
        }
        Fault::FinalUrl(to) => {
          if let Entry::Module { final_url, .. } = &mut entry {
            *final_url = Some(to.clone());
            true
          } else {
            false
          }
        }
        Fault::BadCharset => {
          if let Entry::Module { headers, .. } = &mut entry {
            headers.retain(|(k, _)| k != "content-type");
            let ct = MediaType::from_specifier(url)
              .as_content_type()
              .unwrap_or("application/typescript");
            headers.push((
              "content-type".into(),
              format!("{}; charset=x-bogus-charset", ct),
            ));
            true
          } else {
            false
          }
        }
        Fault::Truncate(_)
        | Fault::BitFlip(_)
        | Fault::Garbage(_)
        | Fault::Unparsable
        | Fault::WrongShape
        | Fault::MalformedJson => {
          if let Entry::Module { bytes, .. } = &mut entry {
            *bytes = apply_content_fault(bytes, f);
            true
          } else {
            false
          }
        }
      };
      if fired {
        *self
          .log
          .borrow_mut()
          .faults_fired
          .entry(f.kind())
          .or_insert(0) += 1;
      } else {
        rec.fault = None;
      }
    }
    let result: LoadResult = match entry {
      Entry::Missing => {
        rec.answer = "missing";
        Ok(None)
      }
      Entry::Error(msg) => {
        rec.answer = "error";
        Err(other_err(&msg))
      }
      Entry::External => {
        rec.answer = "external";
        Ok(Some(LoadResponse::External {
          specifier: url.clone(),
        }))
      }
      Entry::Redirect(to) => match ModuleSpecifier::parse(&to) {
        Ok(to) => {
          rec.answer = "redirect";
          rec.final_url = Some(to.to_string());
          Ok(Some(LoadResponse::Redirect { specifier: to }))
        }
        Err(_) => {
          rec.answer = "error";
          Err(other_err("bad redirect target"))
        }
      },
      Entry::Module {
        bytes,
        headers,
        final_url,
      } => {
        let content: Arc<[u8]> = Arc::from(bytes);
        let integrity = if forced_integrity {
          Some(ChecksumIntegrityError {
            actual: "injected".into(),
            expected: options
              .maybe_checksum
              .as_ref()
              .map(|c| c.as_str().to_string())
              .unwrap_or_default(),
          })
        } else if self.verify_checksums
          && !self.world.vendored.contains(url.as_str())
        {
          options
            .maybe_checksum
            .as_ref()
            .and_then(|c| c.check_source(&content).err())
        } else {
          None
        };
        if let Some(err) = integrity {
          rec.answer = "integrity";
          rec.served = Some(content);
          Err(LoadError::ChecksumIntegrity(err))
        } else {
          rec.answer = "module";
          rec.served = Some(content.clone());
          let specifier = final_url
            .as_deref()
            .and_then(|u| ModuleSpecifier::parse(u).ok())
            .unwrap_or_else(|| url.clone());
          rec.final_url = Some(specifier.to_string());
          Ok(Some(LoadResponse::Module {
            content,
            mtime: None,
            specifier,
            maybe_headers: if headers.is_empty() && url.scheme() == "file" {
              None
            } else {
              Some(headers.into_iter().collect())
            },
          }))
        }
      }
    };
    if forced_integrity && rec.answer != "integrity" {
      // the fault only applies to module answers
      rec.fault = None;
    }
    (result, rec)
  }
}

impl Loader for SimLoader {
  fn max_redirects(&self) -> usize {
    self.max_redirects
  }

  fn load(&self, specifier: &ModuleSpecifier, options: LoadOptions) -> LoadFuture {
    let (result, rec) = self.answer(specifier, &options, false);
    let label = rec.id.label();
    self.sim.record(
      "load.issue",
      format!(
        "{} sum={} dyn={} -> {}",
        label,
        rec.checksum.as_deref().unwrap_or("-"),
        rec.in_dynamic_branch,
        rec.answer
      ),
    );
    self.log.borrow_mut().records.push(rec);
    let op = self.sim.new_op(OpKind::Load, label);
    async move {
      op.await;
      result
    }
    .boxed_local()
  }

  fn ensure_cached(
    &self,
    specifier: &ModuleSpecifier,
    options: LoadOptions,
  ) -> EnsureCachedFuture {
    let (result, rec) = self.answer(specifier, &options, true);
    let label = rec.id.label();
    self.sim.record(
      "ensure.issue",
      format!(
        "{} sum={} -> {}",
        label,
        rec.checksum.as_deref().unwrap_or("-"),
        rec.answer
      ),
    );
    self.log.borrow_mut().records.push(rec);
    let op = self.sim.new_op(OpKind::EnsureCached, label);
    let result = result.map(|v| {
      v.map(|r| match r {
        LoadResponse::Redirect { specifier } => {
          CacheResponse::Redirect { specifier }
        }
        LoadResponse::External { .. } | LoadResponse::Module { .. } => {
          CacheResponse::Cached
        }
      })
    });
    async move {
      op.await;
      result
    }
    .boxed_local()
  }
}

// ---------------------------------------------------------------------------

#[derive(Clone, Debug, PartialEq, Eq)]
pub enum LockerCall {
  GetRemote(String, Option<String>),
  HasRemote(String, bool),
  SetRemote(String, String, /* had entry before */ bool),
  GetPkg(String, Option<String>),
  SetPkg(String, String, bool),
}

#[derive(Default, Clone)]
pub struct LockerState {
  pub remote: BTreeMap<String, String>,
  pub pkg: BTreeMap<String, String>,
}

pub struct SimLocker {
  pub state: LockerState,
  pub calls: Rc<RefCell<Vec<(u64, LockerCall)>>>,
  pub seq: Arc<AtomicU64>,
}

impl SimLocker {
  fn rec(&self, c: LockerCall) {
    let s = self.seq.fetch_add(1, Ordering::SeqCst);
    self.calls.borrow_mut().push((s, c));
  }
}

impl Locker for SimLocker {
  fn get_remote_checksum(
    &self,
    specifier: &ModuleSpecifier,
  ) -> Option<LoaderChecksum> {
    let v = self.state.remote.get(specifier.as_str()).cloned();
    self.rec(LockerCall::GetRemote(specifier.to_string(), v.clone()));
    v.map(LoaderChecksum::new)
  }
  fn has_remote_checksum(&self, specifier: &ModuleSpecifier) -> bool {
    let v = self.state.remote.contains_key(specifier.as_str());
    self.rec(LockerCall::HasRemote(specifier.to_string(), v));
    v
  }
  fn set_remote_checksum(
    &mut self,
    specifier: &ModuleSpecifier,
    checksum: LoaderChecksum,
  ) {
    let had = self.state.remote.contains_key(specifier.as_str());
    self.rec(LockerCall::SetRemote(
      specifier.to_string(),
      checksum.as_str().to_string(),
      had,
    ));
    self
      .state
      .remote
      .insert(specifier.to_string(), checksum.into_string());
  }
  fn get_pkg_manifest_checksum(
    &self,
    package_nv: &PackageNv,
  ) -> Option<LoaderChecksum> {
    let v = self.state.pkg.get(&package_nv.to_string()).cloned();
    self.rec(LockerCall::GetPkg(package_nv.to_string(), v.clone()));
    v.map(LoaderChecksum::new)
  }
  fn set_pkg_manifest_checksum(
    &mut self,
    package_nv: &PackageNv,
    checksum: LoaderChecksum,
  ) {
    let had = self.state.pkg.contains_key(&package_nv.to_string());
    self.rec(LockerCall::SetPkg(
      package_nv.to_string(),
      checksum.as_str().to_string(),
      had,
    ));
    self
      .state
      .pkg
      .insert(package_nv.to_string(), checksum.into_string());
  }
}

// ---------------------------------------------------------------------------

#[derive(Debug)]
pub struct SimNpm {
  pub sim: Rc<Sim>,
  pub cfg: NpmCfg,
  pub calls: Rc<RefCell<Vec<Vec<String>>>>,
  /// (requirements, per-requirement success, dependency-graph success) of
  /// every call
  pub outcomes: Rc<RefCell<Vec<(Vec<String>, Vec<bool>, bool)>>>,
  /// every requirement this resolver was ever asked to resolve (an npm
  /// resolver is stateful: a later call re-resolves the whole set)
  pub known_reqs: Rc<RefCell<std::collections::BTreeSet<String>>>,
}

impl std::fmt::Debug for Sim {
  fn fmt(&self, f: &mut std::fmt::Formatter<'_>) -> std::fmt::Result {
    f.write_str("Sim")
  }
}

#[async_trait::async_trait(?Send)]
impl NpmResolver for SimNpm {
  fn load_and_cache_npm_package_info(&self, package_name: &str) {
    self.sim.record("npm.prefetch", package_name.to_string());
  }

  async fn resolve_pkg_reqs(
    &self,
    package_reqs: &[PackageReq],
  ) -> NpmResolvePkgReqsResult {
    let names: Vec<String> =
      package_reqs.iter().map(|r| r.to_string()).collect();
    self.sim.record("npm.resolve", names.join(","));
    self.calls.borrow_mut().push(names.clone());
    let op = self.sim.new_op(OpKind::Npm, names.join(","));
    op.await;
    let results: Vec<Result<(), NpmLoadError>> = package_reqs
      .iter()
      .map(|r| {
        if self.cfg.fail.contains(r.name.as_str()) {
          Err(NpmLoadError::PackageReqResolution(Arc::new(
            JsErrorBox::generic(format!("npm package not found: {}", r.name)),
          )))
        } else {
          Ok(())
        }
      })
      .collect();
    let any_failed = results.iter().any(|r| r.is_err());
    {
      let mut known = self.known_reqs.borrow_mut();
      for (r, res) in package_reqs.iter().zip(results.iter()) {
        if res.is_ok() {
          known.insert(r.to_string());
        }
      }
    }
    let nothing_to_resolve = self.known_reqs.borrow().is_empty();
    let dep_graph_fails =
      self.cfg.dep_graph_fails && !any_failed && !nothing_to_resolve;
    self.outcomes.borrow_mut().push((
      names.clone(),
      results.iter().map(|r| r.is_ok()).collect(),
      !dep_graph_fails,
    ));
    NpmResolvePkgReqsResult {
      results,
      // contract: don't run dep graph resolution if there are failures
      // (resolving nothing cannot fail: the dependency graph of an empty
      // requirement set is empty)
      dep_graph_result: if dep_graph_fails {
        Err(Arc::new(JsErrorBox::generic(
          "npm dependency graph resolution failed".to_string(),
        )))
      } else {
        Ok(())
      },
    }
  }
}

// ---------------------------------------------------------------------------

#[derive(Clone, Debug)]
pub enum ReportEvent {
  OnLoad(String, usize, usize),
  OnResolve(String, String),
}

#[derive(Debug)]
pub struct SimReporter {
  pub seq: Arc<AtomicU64>,
  pub events: Mutex<Vec<(u64, ReportEvent)>>,
}

impl Reporter for SimReporter {
  fn on_load(
    &self,
    specifier: &ModuleSpecifier,
    modules_done: usize,
    modules_total: usize,
  ) {
    let s = self.seq.fetch_add(1, Ordering::SeqCst);
    self.events.lock().unwrap().push((
      s,
      ReportEvent::OnLoad(specifier.to_string(), modules_done, modules_total),
    ));
  }
  fn on_resolve(&self, req: &PackageReq, package_nv: &PackageNv) {
    let s = self.seq.fetch_add(1, Ordering::SeqCst);
    self.events.lock().unwrap().push((
      s,
      ReportEvent::OnResolve(req.to_string(), package_nv.to_string()),
    ));
  }
}

// ---------------------------------------------------------------------------

/// Wrapper around the real analyzer that may suspend before analysing.
pub struct SimAnalyzer<'a> {
  pub sim: Rc<Sim>,
  pub inner: &'a dyn ModuleAnalyzer,
  pub suspend: bool,
}

#[async_trait::async_trait(?Send)]
impl ModuleAnalyzer for SimAnalyzer<'_> {
  async fn analyze(
    &self,
    specifier: &ModuleSpecifier,
    source: Arc<str>,
    media_type: MediaType,
  ) -> Result<ModuleInfo, JsErrorBox> {
    if self.suspend {
      let op = self.sim.new_op(OpKind::Analyze, specifier.to_string());
      op.await;
    }
    self.inner.analyze(specifier, source, media_type).await
  }
}

// ---------------------------------------------------------------------------

#[derive(Debug)]
pub struct SimResolver {
  pub cfg: ResolverCfg,
}

#[derive(Debug)]
struct SimResolveError(String);
impl std::fmt::Display for SimResolveError {
  fn fmt(&self, f: &mut std::fmt::Formatter<'_>) -> std::fmt::Result {
    write!(f, "{}", self.0)
  }
}
impl std::error::Error for SimResolveError {}

impl Resolver for SimResolver {
  fn default_jsx_import_source(
    &self,
    _referrer: &ModuleSpecifier,
  ) -> Option<String> {
    self.cfg.default_jsx_import_source.clone()
  }

  fn default_jsx_import_source_types(
    &self,
    _referrer: &ModuleSpecifier,
  ) -> Option<String> {
    self.cfg.default_jsx_import_source_types.clone()
  }

  fn resolve(
    &self,
    specifier_text: &str,
    referrer_range: &Range,
    kind: ResolutionKind,
  ) -> Result<ModuleSpecifier, ResolveError> {
    let target = if kind == ResolutionKind::Types {
      self
        .cfg
        .types_map
        .get(specifier_text)
        .or_else(|| self.cfg.map.get(specifier_text))
    } else {
      self.cfg.map.get(specifier_text)
    };
    if let Some(t) = target {
      if t == "!" {
        return Err(ResolveError::Other(JsErrorBox::generic(format!(
          "resolver refused \"{}\"",
          specifier_text
        ))));
      }
      if let Ok(u) = ModuleSpecifier::parse(t) {
        return Ok(u);
      }
    }
    Ok(deno_graph::resolve_import(
      specifier_text,
      &referrer_range.specifier,
    )?)
  }

  fn resolve_types(
    &self,
    specifier: &ModuleSpecifier,
  ) -> Result<Option<(ModuleSpecifier, Option<Range>)>, ResolveError> {
    match self.cfg.resolve_types.get(specifier.as_str()) {
      Some(t) if t == "!" => Err(ResolveError::Other(JsErrorBox::generic(
        "resolve_types failed".to_string(),
      ))),
      Some(t) => Ok(ModuleSpecifier::parse(t).ok().map(|u| (u, None))),
      None => Ok(None),
    }
  }
}

// ---------------------------------------------------------------------------

#[derive(Debug)]
struct SimDirEntry {
  path: PathBuf,
  is_dir: bool,
}

impl FsDirEntry for SimDirEntry {
  type Metadata = BoxedFsMetadataValue;
  fn file_name(&self) -> Cow<'_, OsStr> {
    Cow::Owned(self.path.file_name().unwrap_or_default().to_owned())
  }
  fn file_type(&self) -> std::io::Result<FileType> {
    Ok(if self.is_dir {
      FileType::Dir
    } else {
      FileType::File
    })
  }
  fn metadata(&self) -> std::io::Result<Self::Metadata> {
    Err(std::io::Error::new(
      std::io::ErrorKind::Unsupported,
      "no metadata in simulation",
    ))
  }
  fn path(&self) -> Cow<'_, Path> {
    Cow::Borrowed(&self.path)
  }
}

/// Simulated directory listing with seeded entry order and errors.
pub struct SimFs {
  pub dirs: BTreeMap<String, Vec<(String, bool)>>,
  /// seed deciding the order in which entries are returned
  pub order_seed: u64,
  /// 0 = none, 1 = PermissionDenied on some dir, 2 = NotFound, 3 = other
  pub error_mode: u8,
  pub reads: RefCell<u64>,
}

impl FsReadDirBoxed for SimFs {
  fn fs_read_dir_boxed(
    &self,
    path: &Path,
  ) -> std::io::Result<
    Box<dyn Iterator<Item = std::io::Result<BoxedFsDirEntry>>>,
  > {
    *self.reads.borrow_mut() += 1;
    let key = path.to_string_lossy().trim_end_matches('/').to_string();
    let Some(entries) = self.dirs.get(&key) else {
      return Err(std::io::Error::new(
        std::io::ErrorKind::NotFound,
        "no such directory",
      ));
    };
    let mut entries = entries.clone();
    // seeded shuffle
    let mut r = Xoshiro::new(crate::rng::hash_str(self.order_seed, &key));
    for i in (1..entries.len()).rev() {
      let j = r.below(i as u32 + 1) as usize;
      entries.swap(i, j);
    }
    let base = PathBuf::from(&key);
    let items: Vec<std::io::Result<BoxedFsDirEntry>> = entries
      .into_iter()
      .map(|(name, is_dir)| {
        Ok(BoxedFsDirEntry(Box::new(SimDirEntry {
          path: base.join(name),
          is_dir,
        })))
      })
      .collect();
    Ok(Box::new(items.into_iter()))
  }
}
