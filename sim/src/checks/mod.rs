pub mod common;
pub mod worlds;
pub mod c03;
pub mod c04;

use crate::framework::CheckSpec;

pub fn all_specs() -> Vec<CheckSpec> {
  vec![c03::spec(), c04::spec()]
}
