pub mod common;
pub mod worlds;
pub mod c01;
pub mod c02;
pub mod c03;
pub mod c04;
pub mod c05;
pub mod c06;
pub mod c07;
pub mod c12;
pub mod c13;
pub mod c14;
pub mod c15;
pub mod c17;
pub mod c18;
pub mod c19;
pub mod c20;

use crate::framework::CheckSpec;

pub fn all_specs() -> Vec<CheckSpec> {
  vec![c01::spec(), c02::spec(), c03::spec(), c04::spec(), c05::spec(), c06::spec(), c07::spec(), c12::spec(), c13::spec(), c14::spec(), c15::spec(), c17::spec(), c18::spec(), c19::spec(), c20::spec()]
}
