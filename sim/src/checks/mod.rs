pub mod common;
pub mod worlds;
pub mod c04;

use crate::framework::CheckSpec;

pub fn all_specs() -> Vec<CheckSpec> {
  vec![c04::spec()]
}
