//! Helpers shared by the checks.

use std::rc::Rc;

use serde_json::Value;
use serde_json::json;

use crate::exec::RunEnd;
use crate::framework::CaseOutcome;
use crate::hashseed::with_hash_seed;
use crate::observe::observe;
use crate::run::Operation;
use crate::run::Report;
use crate::run::SchedOpts;
use crate::run::SemOpts;
use crate::run::Session;
use crate::run::run_op;
use crate::tape::Stream;
use crate::tape::Tape;
use crate::tape::Tapes;
use crate::world::FaultPlan;
use crate::world::World;

/// What a simulated build returns to the case (all `Send`).
pub struct Built<T> {
  pub end: RunEnd,
  pub obs: Value,
  pub extra: T,
  pub summary: ReportSummary,
}

#[derive(Clone, Debug, Default)]
pub struct ReportSummary {
  pub order_sig: u64,
  pub ops: u64,
  pub steps: u64,
  pub out_of_order: u64,
  pub spurious: u64,
  pub spawned: u64,
  pub spawned_after_join: u64,
  pub sim_time: u64,
  pub max_outstanding: u64,
  pub fs_reads: u64,
  pub faults_fired: Vec<(&'static str, u64)>,
  pub loads: u64,
  pub retry_after_integrity: u64,
  pub cache_only_probes_hit: u64,
  pub cache_only_probes_miss: u64,
  pub reloads: u64,
  pub redirect_answers: u64,
  pub trace: Vec<String>,
  pub n_modules: u64,
  pub error_kinds: Vec<(String, u64)>,
  pub n_redirects: u64,
}

pub fn summarise(r: &Report, keep_trace: bool) -> ReportSummary {
  let mut s = ReportSummary {
    order_sig: r.order_sig,
    ops: r.ops_issued as u64,
    steps: r.stats.steps,
    out_of_order: r.stats.out_of_order_completions,
    spurious: r.stats.spurious_wakes,
    spawned: r.stats.spawned_tasks,
    spawned_after_join: r.stats.spawned_polled_after_join_wait,
    sim_time: r.stats.sim_time,
    max_outstanding: r.stats.max_outstanding,
    fs_reads: r.fs_reads,
    faults_fired: r.faults_fired.iter().map(|(k, v)| (*k, *v)).collect(),
    loads: r.loads.len() as u64,
    ..Default::default()
  };
  for l in &r.loads {
    if l.id.cs == crate::world::CS_RELOAD {
      s.reloads += 1;
      if l.id.nth == 0
        && r.loads.iter().any(|p| {
          p.id.url == l.id.url
            && p.answer == "integrity"
            && p.seq < l.seq
        })
      {
        s.retry_after_integrity += 1;
      }
    }
    if l.id.cs == crate::world::CS_ONLY {
      if l.answer == "module" {
        s.cache_only_probes_hit += 1;
      } else {
        s.cache_only_probes_miss += 1;
      }
    }
    if l.answer == "redirect" {
      s.redirect_answers += 1;
    }
  }
  if keep_trace {
    s.trace = r
      .history
      .iter()
      .take(60)
      .map(|e| format!("{} {} {}", e.seq, e.kind, e.detail))
      .collect();
  }
  s
}

pub fn add_summary(out: &mut CaseOutcome, s: &ReportSummary, sched: &SchedOpts) {
  out.count("builds", 1);
  out.count("ops", s.ops);
  out.count("steps", s.steps);
  out.count("graph.modules", s.n_modules);
  out.count("graph.redirects", s.n_redirects);
  for (k, v) in &s.error_kinds {
    out.count(&format!("graph.error.{}", k), *v);
  }
  out.count("sim_time", s.sim_time);
  out.count("probe.out_of_order_completion", s.out_of_order);
  out.count("probe.spurious_wake", s.spurious);
  out.count("probe.spawned_task", s.spawned);
  out.count("probe.spawned_polled_after_awaiter", s.spawned_after_join);
  out.count("probe.retry_after_checksum", s.retry_after_integrity);
  out.count("probe.cache_only_probe_hit", s.cache_only_probes_hit);
  out.count("probe.cache_only_probe_miss", s.cache_only_probes_miss);
  out.count("probe.reload_request", s.reloads);
  out.count("probe.redirect_answer", s.redirect_answers);
  out.count("probe.dir_read", s.fs_reads);
  out.count(&format!("policy.{}", sched.policy().name()), 1);
  if sched.inline_exec {
    out.count("policy.inline-executor", 1);
  }
  if sched.analyzer_suspend {
    out.count("policy.analyzer-suspends", 1);
  }
  for (k, v) in &s.faults_fired {
    out.count(&format!("fault.{}", k), *v);
  }
  out
    .distinct
    .entry("event_order_signatures")
    .or_default()
    .push(s.order_sig);
}

/// Build `world` from scratch on a fresh thread with the given hash seed.
/// `tape` provides the schedule draws. `inspect` runs on that thread with the
/// finished session.
pub fn build_fresh<T: Send + 'static>(
  world: &World,
  plan: &FaultPlan,
  sem: &SemOpts,
  sched: &SchedOpts,
  tape: Tape,
  hash_seed: u64,
  keep_trace: bool,
  inspect: impl FnOnce(&mut Session, &Report, &Rc<World>) -> T + Send + 'static,
) -> Result<(Built<T>, Tape), String> {
  let world = world.clone();
  let plan = plan.clone();
  let sem = sem.clone();
  let sched = sched.clone();
  let res = with_hash_seed(hash_seed, false, move || {
    let world = Rc::new(world);
    let plan = Rc::new(plan);
    let mut session = Session::new(&world, &sem);
    if !sem.prelude_roots.is_empty() {
      let (_, _) = run_op(
        &mut session,
        &world,
        &Rc::new(FaultPlan::default()),
        &sem,
        &SchedOpts::default(),
        Operation::Build {
          roots: sem.prelude_roots.clone(),
          imports: vec![],
        },
        Tape::replay(Default::default()),
        false,
      );
    }
    let op = Operation::Build {
      roots: world.roots.clone(),
      imports: world.imports.clone(),
    };
    let (report, tape) =
      run_op(&mut session, &world, &plan, &sem, &sched, op, tape, keep_trace);
    let obs = if report.end == RunEnd::Done {
      observe(
        &session.graph,
        if sem.with_locker {
          Some(&session.locker)
        } else {
          None
        },
      )
    } else {
      json!({"abnormal_end": format!("{:?}", report.end)})
    };
    let extra = inspect(&mut session, &report, &world);
    let mut summary = summarise(&report, keep_trace);
    if report.end == RunEnd::Done {
      summary.n_modules = session.graph.modules().count() as u64;
      summary.n_redirects = session.graph.redirects.len() as u64;
      let mut kinds: std::collections::BTreeMap<String, u64> = Default::default();
      for e in session.graph.module_errors() {
        let d = format!("{:?}", e.as_kind());
        let name = d.split(|c: char| !c.is_alphanumeric()).next().unwrap_or("").to_string();
        *kinds.entry(name).or_insert(0) += 1;
      }
      summary.error_kinds = kinds.into_iter().collect();
    }
    (
      Built {
        end: report.end.clone(),
        obs,
        extra,
        summary,
      },
      tape,
    )
  });
  res.map_err(|p| crate::exec::panic_message(&p))
}

pub fn world_hash(w: &World) -> u64 {
  crate::rng::hash_str(11, &serde_json::to_string(w).unwrap_or_default())
}

pub fn value_hash(v: &Value) -> u64 {
  crate::rng::hash_str(13, &v.to_string())
}

/// Normalise a diff path into a classification signature: URLs and indices
/// are replaced by placeholders.
pub fn classify_path(path: &str) -> String {
  let mut out: Vec<String> = Vec::new();
  for seg in path.split('/') {
    if seg.is_empty() {
      continue;
    }
    let (base, suffix) = match seg.find('#') {
      Some(i) => (&seg[..i], &seg[i..]),
      None => (seg, ""),
    };
    let norm = if base.chars().all(|c| c.is_ascii_digit()) && !base.is_empty() {
      "#".to_string()
    } else if base.contains("~1")
      || base.contains(':')
      || base.contains('@')
      || base.contains('.')
    {
      "<id>".to_string()
    } else {
      base.to_string()
    };
    out.push(format!("{}{}", norm, suffix));
  }
  out.join("/")
}

pub fn tapes_snapshot(t: &Tape) -> Tapes {
  t.rec.clone()
}

pub fn draw_hash_seed(tape: &mut Tape) -> u64 {
  tape.draw(Stream::Hash, u32::MAX) as u64
}


/// A `jsr:` specifier that both graphs resolved, but to files of different
/// package versions. (When a later resolution of the same requirement
/// overwrote the package table entry the two tables can agree while the
/// redirects of the specifiers resolved earlier do not.)
pub fn jsr_redirect_difference(
  a: &serde_json::Value,
  b: &serde_json::Value,
) -> Option<(String, String, String)> {
  let pick = |v: &serde_json::Value| -> Option<serde_json::Map<String, serde_json::Value>> {
    v.get("redirects")
      .and_then(|r| r.as_object())
      .or_else(|| {
        v.get("serialized")
          .and_then(|s| s.get("redirects"))
          .and_then(|r| r.as_object())
      })
      .cloned()
  };
  let (ra, rb) = (pick(a)?, pick(b)?);
  for (k, tb) in &rb {
    if !k.starts_with("jsr:") {
      continue;
    }
    if let Some(ta) = ra.get(k) {
      if ta != tb {
        return Some((
          k.clone(),
          ta.as_str().unwrap_or("").to_string(),
          tb.as_str().unwrap_or("").to_string(),
        ));
      }
    }
  }
  None
}
