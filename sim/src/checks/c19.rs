//! C19 — incremental builds and reloads converge to the from-scratch graph.
//! History simulation on one `ModuleGraph`.

use std::rc::Rc;

use serde_json::Value;
use serde_json::json;

use crate::checks::c04::truncate;
use crate::checks::common::*;
use crate::exec::RunEnd;
use crate::framework::CaseOutcome;
use crate::framework::CaseParams;
use crate::framework::CheckSpec;
use crate::framework::Tier;
use crate::hashseed::with_hash_seed;
use crate::observe::first_diff;
use crate::observe::observe;
use crate::run::Operation;
use crate::run::SchedOpts;
use crate::run::SemOpts;
use crate::run::Session;
use crate::run::run_op;
use crate::tape::Stream;
use crate::tape::Tape;
use crate::world::*;

pub fn spec() -> CheckSpec {
  CheckSpec {
    id: "C19",
    level: "exploration",
    rule: "case = history over one ModuleGraph in a generated world: Build(R_1) ... Build(R_k) for a drawn ordered partition of a root set (with repeats and already-present roots), each under its own drawn schedule; then Build of roots it already has; then Edit(one module: add / drop an import, break / fix it) followed by Reload of the edited specifier (given directly or as a redirect source). Oracles: partition - entries (module detail, error text), redirects, packages equal the at-once build of the concatenated root list; idempotence - canonical observation unchanged; reload - every specifier of the from-scratch build of the new world has that build's entry, and entries outside it are identical to what they were before the reload. distinct+non-trivial = distinct (world, history) pairs with at least two builds or one reload",
    assumptions: vec![
      "partition equality ignores which importer is named as referrer of a shared failing specifier (visit order differs between one build and several)",
      "the simulated npm resolver answers the unconditional empty request consistently",
    ],
    real_components: "deno_graph Builder::build (known-root filtering, FillPassMode), Builder::reload, existing-slot short-circuit",
    stub_components: "all seams simulated; world edited between operations",
    quick_cases: 10000,
    thorough_cases: 120000,
    run_case,
    systematic: |_| 0,
  }
}

/// Referrer-insensitive view of an observation.
fn loose(obs: &Value) -> Value {
  let mut slots = serde_json::Map::new();
  if let Some(m) = obs["slots"].as_object() {
    for (k, v) in m {
      let vv = if let Some(e) = v.get("error_text") {
        json!({"error": e})
      } else if v.get("error").is_some() {
        // strip the "    at ..." suffix
        let t = v["error"].as_str().unwrap_or("");
        let t = t.split("\n    at ").next().unwrap_or(t);
        json!({"error": t})
      } else {
        v.clone()
      };
      slots.insert(k.clone(), vv);
    }
  }
  // a package for which no requirement is recorded says the same whether it
  // has an (empty) entry in the table or none
  let mut packages = obs["packages"].clone();
  for field in ["deps", "exports"] {
    if let Some(t) = packages.get_mut(field).and_then(|d| d.as_object_mut()) {
      t.retain(|_, v| match v {
        Value::Array(a) => !a.is_empty(),
        Value::Object(o) => !o.is_empty(),
        Value::Null => false,
        _ => true,
      });
    }
  }
  json!({
    "slots": slots,
    "modules": obs["modules"],
    "redirects": obs["serialized"]["redirects"],
    "roots": obs["serialized"]["roots"],
    "packages": packages,
    "has_node_specifier": obs["has_node_specifier"],
  })
}

/// `loose` without the entries that nothing reaches in *either* graph (an
/// importer that was visited and then became an error entry leaves its
/// subgraph behind - the C01 finding; which build order produces such
/// orphans is not what this property is about).
fn without(obs: &Value, orphans: &std::collections::BTreeSet<String>) -> Value {
  let mut v = obs.clone();
  for field in ["slots", "modules", "redirects"] {
    if let Some(m) = v.get_mut(field).and_then(|m| m.as_object_mut()) {
      m.retain(|k, _| !orphans.contains(k));
    }
  }
  v
}

fn slot_class(v: Option<&Value>) -> String {
  match v {
    None => "absent".into(),
    Some(v) => {
      if let Some(e) = v.get("error").and_then(|e| e.as_str()) {
        let head: String = e
          .chars()
          .take_while(|c| *c != '"' && *c != '\n' && *c != '\'')
          .take(36)
          .collect();
        format!("error[{}]", head.trim())
      } else {
        format!("module:{}", v["module"].as_str().unwrap_or("?"))
      }
    }
  }
}

struct Step {
  end: RunEnd,
  obs: Value,
  summary: ReportSummary,
  /// specifiers reachable from the graph's roots and configured imports by
  /// following the dependencies of module entries (error entries end a path)
  reach: std::collections::BTreeSet<String>,
}

pub fn run_case(tape: &mut Tape, _tier: Tier, _p: &CaseParams) -> CaseOutcome {
  let mut out = CaseOutcome::default();
  let mut cfg = GenCfg::basic();
  cfg.mixed_attrs = false;
  let mut world = crate::checks::worlds::gen_any_world(tape, &cfg);
  let mut sem = SemOpts::draw(tape);
  sem.with_locker = false;
  // whether a chain at the redirect limit is cut depends on which edge met it
  // first (a recorded redirect is not counted again): keep the limit away
  // from the generated chain lengths
  sem.max_redirects = 10;
  crate::checks::worlds::strip_lockfile(&mut world);
  // root pool: world roots + a few other entries
  let mut pool: Vec<String> = world.roots.clone();
  let others: Vec<String> = world
    .remote
    .keys()
    .filter(|u| !u.ends_with("meta.json"))
    // a source map is loaded as a source map; importing it as a module or
    // making it a root would mix the kinds of use of one target, which the
    // statement's proviso excludes
    .filter(|u| !u.ends_with(".map") && !final_target(&world, u).ends_with(".map"))
    .cloned()
    .collect();
  let extra = tape.small(Stream::World, 0, 3);
  for _ in 0..extra {
    if others.is_empty() {
      break;
    }
    let u = others[tape.draw(Stream::World, others.len() as u32) as usize].clone();
    if !pool.contains(&u) {
      pool.push(u);
    }
  }
  // ordered partition with repeats
  let k = tape.range(Stream::World, 1, 3);
  let mut parts: Vec<Vec<String>> = vec![vec![]; k as usize];
  for r in &pool {
    let i = tape.draw(Stream::World, k) as usize;
    parts[i].push(r.clone());
    if tape.draw(Stream::World, 5) == 4 {
      let j = tape.draw(Stream::World, k) as usize;
      parts[j].push(r.clone());
    }
  }
  let mut concat: Vec<String> = vec![];
  let mut parts = parts;
  for p in &parts {
    for r in p {
      if !concat.contains(r) {
        concat.push(r.clone());
      }
    }
  }
  // the extra roots are attribute-less imports of their targets: re-establish
  // the same-attribute proviso
  world.roots = concat.clone();
  enforce_same_attribute_proviso(&mut world);
  crate::checks::worlds::resync_registry(&mut world);
  // edit plan
  let do_reload = tape.draw(Stream::World, 2) == 1;
  let editable: Vec<String> = world
    .descs
    .values()
    .filter(|d| d.lang.is_script() && !d.url.starts_with(REGISTRY))
    .map(|d| d.url.clone())
    .collect();
  // imported targets that do not exist (missing-module error entries): one
  // reload in six creates such a module and reloads its specifier, i.e. the
  // reloaded entry is an error entry
  let missing_targets: Vec<String> = {
    let w = &world;
    let mut v: Vec<String> = w
      .descs
      .values()
      .filter(|d| !d.url.starts_with(REGISTRY))
      .flat_map(|d| {
        d.items
          .iter()
          .filter(|i| i.attr.is_none() && !i.form.is_source_phase() && i.form != Form::DynamicTpl)
          .map(move |i| resolve_text(w, &d.url, &i.spec))
      })
      .filter(|u| {
        (u.starts_with("file:///") || u.starts_with("https://") || u.starts_with("http://"))
          && !u.starts_with(REGISTRY)
          && (u.ends_with(".ts") || u.ends_with(".js"))
          && !world.remote.contains_key(u)
          && !world.cache.contains_key(u)
      })
      .collect();
    v.sort();
    v.dedup();
    v
  };
  let create_missing =
    do_reload && !missing_targets.is_empty() && tape.draw(Stream::World, 6) == 5;
  let edit_target = if create_missing {
    Some(missing_targets[tape.draw(Stream::World, missing_targets.len() as u32) as usize].clone())
  } else if do_reload && !editable.is_empty() {
    Some(editable[tape.draw(Stream::World, editable.len() as u32) as usize].clone())
  } else {
    None
  };
  // sometimes the edited module is reloaded through a redirect chain that
  // leads to it (and that is a root, so the chain is in the graph)
  let reload_via_chain = edit_target
    .as_ref()
    .is_some_and(|t| t.starts_with("http"))
    && tape.draw(Stream::World, 3) == 2;
  let mut reload_spec = edit_target.clone();
  if reload_via_chain {
    let t = edit_target.clone().unwrap();
    let hops = tape.range(Stream::World, 1, 3);
    let mut next = t;
    for h in (0..hops).rev() {
      let u = format!("{}hop{}.ts", H_B, h);
      world.remote.insert(u.clone(), Entry::Redirect(next));
      next = u;
    }
    if !concat.contains(&next) {
      concat.push(next.clone());
      parts.last_mut().unwrap().push(next.clone());
    }
    world.roots = concat.clone();
    enforce_same_attribute_proviso(&mut world);
    crate::checks::worlds::resync_registry(&mut world);
    reload_spec = Some(next);
  }
  let edit_kind = tape.draw(Stream::World, 4);
  let edit_pick = tape.draw(Stream::World, 64);
  let hash_seed = draw_hash_seed(tape);
  // pre-draw schedules for every operation
  let n_ops = parts.len() + 4;
  let scheds: Vec<SchedOpts> = (0..n_ops).map(|_| SchedOpts::draw(tape)).collect();
  // a first build that only has configured imports (no roots) followed by the
  // builds of the roots: the graph is not empty although it has no roots, so
  // a cache-busting restart (stale registry metadata) must not throw it away
  if world
    .registry
    .packages
    .values()
    .any(|p| p.stale_cached_meta.is_some())
    && tape.draw(Stream::World, 3) == 2
  {
    if world.imports.is_empty() {
      let u = format!("{}cfg_types.d.ts", H_FILE);
      world.add_desc(ModuleDesc::new(u.clone(), Lang::Dts));
      world
        .imports
        .push((format!("{}deno.json", H_FILE), vec![u]));
    }
    parts.insert(0, vec![]);
    out.count("probe.first_build_has_configured_imports_only", 1);
  }
  let imports = world.imports.clone();
  // edited world
  let mut world2 = world.clone();
  let mut edit_desc = String::new();
  if let (true, Some(t)) = (create_missing, &edit_target) {
    let lang = if t.ends_with(".js") { Lang::Js } else { Lang::Ts };
    let mut d = ModuleDesc::new(t.clone(), lang);
    if edit_kind >= 2 && !editable.is_empty() {
      // the new module imports an existing script module
      d.items.push(Item::new(
        Form::SideEffect,
        editable[edit_pick as usize % editable.len()].clone(),
      ));
    }
    edit_desc = "create the module that was missing".into();
    world2.add_desc(d);
    refresh_aliases(&mut world2);
  } else if let Some(t) = &edit_target {
    let mut d = world2.descs.get(t).unwrap().clone();
    match edit_kind {
      0 => {
        // add an import of some existing entry
        if !others.is_empty() {
          let to = others[edit_pick as usize % others.len()].clone();
          let mut it = Item::new(Form::Named, to.clone());
          // keep the proviso without touching any other module: use the
          // attribute the other imports of this target use
          let ft = final_target(&world2, &to);
          it.attr = world2
            .descs
            .values()
            .flat_map(|m| m.items.iter().map(move |i| (m, i)))
            .find(|(m, i)| {
              final_target(&world2, &resolve_text(&world2, &m.url, &i.spec)) == ft
            })
            .and_then(|(_, i)| i.attr.clone());
          d.items.push(it);
          edit_desc = format!("add import of {}", to);
        }
      }
      1 => {
        if !d.items.is_empty() {
          let i = edit_pick as usize % d.items.len();
          let it = d.items.remove(i);
          edit_desc = format!("drop import of {}", it.spec);
        }
      }
      2 => {
        d.unparsable = !d.unparsable;
        edit_desc = format!("unparsable = {}", d.unparsable);
      }
      _ => {
        // add an import of a new module
        let nu = format!("{}fresh.ts", H_FILE);
        world2.add_desc(ModuleDesc::new(nu.clone(), Lang::Ts));
        d.items.push(Item::new(Form::SideEffect, nu));
        edit_desc = "add import of a new module".into();
      }
    }
    world2.add_desc(d);
    refresh_aliases(&mut world2);
  }
  world.roots = concat.clone();
  world2.roots = concat.clone();
  let t0 = std::mem::replace(tape, Tape::replay(Default::default()));
  let w1 = world.clone();
  let w2 = world2.clone();
  let sem_c = sem.clone();
  let parts_c = parts.clone();
  let scheds_c = scheds.clone();
  let edit_target_c = reload_spec.clone();
  let res = with_hash_seed(hash_seed, false, move || {
    let mut tape = t0;
    let plan = Rc::new(FaultPlan::default());
    let w1 = Rc::new(w1);
    let w2 = Rc::new(w2);
    let mut steps: Vec<(String, Step)> = vec![];
    let mut session = Session::new(&w1, &sem_c);
    let mut si = 0;
    let mut do_op = |session: &mut Session,
                     world: &Rc<World>,
                     op: Operation,
                     name: String,
                     tape: Tape,
                     si: &mut usize|
     -> (Step, Tape) {
      let sched = &scheds_c[*si % scheds_c.len()];
      *si += 1;
      let (report, tape) =
        run_op(session, world, &plan, &sem_c, sched, op, tape, false);
      let obs = if report.end == RunEnd::Done {
        observe(&session.graph, None)
      } else {
        json!({"abnormal_end": format!("{:?}", report.end)})
      };
      let _ = name;
      let reach = if report.end == RunEnd::Done {
        crate::checks::c17::reachable_all(&crate::shape::shape_of(
          &session.graph,
        ))
      } else {
        Default::default()
      };
      (
        Step {
          end: report.end.clone(),
          obs,
          summary: summarise(&report, false),
          reach,
        },
        tape,
      )
    };
    // 1. partition builds
    for (i, p) in parts_c.iter().enumerate() {
      let (s, t) = do_op(
        &mut session,
        &w1,
        Operation::Build {
          roots: p.clone(),
          imports: if i == 0 { imports.clone() } else { vec![] },
        },
        format!("build{}", i),
        tape,
        &mut si,
      );
      tape = t;
      steps.push((format!("build part {} {:?}", i, p), s));
    }
    // 2. at-once build in a fresh graph
    let mut scratch = Session::new(&w1, &sem_c);
    let (s, t) = do_op(
      &mut scratch,
      &w1,
      Operation::Build {
        roots: w1.roots.clone(),
        imports: imports.clone(),
      },
      "at-once".into(),
      tape,
      &mut si,
    );
    tape = t;
    steps.push(("at-once".into(), s));
    // 3. idempotence: build again with roots it already has
    let again: Vec<String> = w1.roots.iter().take(2).cloned().collect();
    let (s, t) = do_op(
      &mut session,
      &w1,
      Operation::Build {
        roots: again,
        imports: imports.clone(),
      },
      "again".into(),
      tape,
      &mut si,
    );
    tape = t;
    steps.push(("again".into(), s));
    // 4. edit + reload
    if let Some(target) = &edit_target_c {
      let (s, t) = do_op(
        &mut session,
        &w2,
        Operation::Reload {
          specifiers: vec![target.clone()],
        },
        "reload".into(),
        tape,
        &mut si,
      );
      tape = t;
      steps.push(("reload".into(), s));
      let mut scratch2 = Session::new(&w2, &sem_c);
      let (s, t) = do_op(
        &mut scratch2,
        &w2,
        Operation::Build {
          roots: w2.roots.clone(),
          imports: imports.clone(),
        },
        "scratch-new".into(),
        tape,
        &mut si,
      );
      tape = t;
      steps.push(("scratch-new".into(), s));
    }
    (steps, tape)
  });
  let (steps, t1) = match res {
    Ok(x) => x,
    Err(p) => {
      out.harness_error = Some(format!(
        "history thread panicked: {}",
        crate::exec::panic_message(&p)
      ));
      return out;
    }
  };
  *tape = t1;
  for (i, (_, s)) in steps.iter().enumerate() {
    add_summary(&mut out, &s.summary, &scheds[i % scheds.len()]);
  }
  if steps.iter().any(|(_, s)| s.end != RunEnd::Done) {
    out.count("abnormal_end", 1);
    return out;
  }
  let ctx = |extra: Value| {
    json!({"what": extra, "parts": parts, "edit_target": edit_target, "edit": edit_desc,
      "sem": sem, "world": world.to_json()})
  };
  let np = parts.len();
  let incremental = &steps[np - 1].1.obs;
  let at_once = &steps[np].1.obs;
  let again = &steps[np + 1].1.obs;
  // jsr requirements are resolved in visit order against what the graph
  // selected so far; several builds visit in another order than one
  if let (Some(mi), Some(ma)) = (
    incremental["packages"]["mappings"].as_object(),
    at_once["packages"]["mappings"].as_object(),
  ) {
    if let Some((req, nv)) = ma
      .iter()
      .find(|(req, nv)| mi.get(*req).is_some_and(|x| x != *nv))
    {
      out.violation(
        "C19",
        "partition-equals-at-once",
        "partition:jsr-version-selection-differs",
        format!(
          "requirement {} resolves to {} after successive builds {:?} but to {} when building {:?} at once",
          req, mi[req], parts, nv, concat
        ),
        ctx(json!({"req": req})),
      );
      return out;
    }
  }
  if let Some((spec, ta, tb)) = jsr_redirect_difference(incremental, at_once) {
    out.violation(
      "C19",
      "partition-equals-at-once",
      "partition:jsr-version-selection-differs",
      format!(
        "{} redirects to {} after successive builds {:?} and to {} when all roots are built at once",
        spec, ta, parts, tb
      ),
      ctx(json!({"spec": spec})),
    );
    return out;
  }
  // with stale cached registry metadata the at-once build restarts and sees
  // the fresh version list for every requirement, while a build on a
  // non-empty graph cannot restart (only the one package's metadata is
  // reloaded, earlier selections stay): a `jsr:` specifier that resolved in
  // one graph and failed in the other is the same visit-order finding
  if world
    .registry
    .packages
    .values()
    .any(|p| p.stale_cached_meta.is_some())
  {
    let red = |v: &Value| -> serde_json::Map<String, Value> {
      v.get("serialized")
        .and_then(|s| s.get("redirects"))
        .and_then(|r| r.as_object())
        .cloned()
        .unwrap_or_default()
    };
    let (ri, ra) = (red(incremental), red(at_once));
    if let Some(k) = ri
      .keys()
      .chain(ra.keys())
      .find(|k| k.starts_with("jsr:") && ri.contains_key(*k) != ra.contains_key(*k))
    {
      out.violation(
        "C19",
        "partition-equals-at-once",
        "partition:jsr-version-selection-differs",
        format!(
          "{} resolves to {:?} after successive builds {:?} and to {:?} when all roots are built at once (stale cached registry metadata: only the at-once build may restart)",
          k,
          ri.get(k),
          parts,
          ra.get(k)
        ),
        ctx(json!({"spec": k})),
      );
      return out;
    }
  }
  // entries (and redirect sources) that one of the two graphs has but cannot
  // reach from its roots
  let part_orphans: std::collections::BTreeSet<String> = {
    let mut o = std::collections::BTreeSet::new();
    for st in [&steps[np - 1].1, &steps[np].1] {
      let l = loose(&st.obs);
      for field in ["slots", "redirects"] {
        if let Some(m) = l[field].as_object() {
          for k in m.keys() {
            if !st.reach.contains(k) {
              o.insert(k.clone());
            }
          }
        }
      }
    }
    o
  };
  out.count("partition_orphans_ignored", part_orphans.len() as u64);
  // partition: entries first (classified by what they are), then the rest
  {
    let li = loose(incremental);
    let la = loose(at_once);
    let empty = serde_json::Map::new();
    let si = li["slots"].as_object().unwrap_or(&empty);
    let sa = la["slots"].as_object().unwrap_or(&empty);
    let class = |v: Option<&Value>| -> String {
      match v {
        None => "absent".into(),
        Some(v) => {
          if let Some(e) = v.get("error").and_then(|e| e.as_str()) {
            let head: String = e
              .chars()
              .take_while(|c| *c != '"' && *c != '\n' && *c != '\'')
              .take(36)
              .collect();
            format!("error[{}]", head.trim())
          } else {
            format!("module:{}", v["module"].as_str().unwrap_or("?"))
          }
        }
      }
    };
    let keys: std::collections::BTreeSet<&String> =
      si.keys().chain(sa.keys()).collect();
    for k in keys {
      if part_orphans.contains(k.as_str()) {
        continue;
      }
      if si.get(k) != sa.get(k) {
        out.violation(
          "C19",
          "partition-equals-at-once",
          format!(
            "partition:{}entry:{}-vs-{}",
            if si.get(k).is_some()
              && sa.get(k).is_some()
              && crate::checks::worlds::context_sensitive(&world, k)
            {
              "first-visitor-context:"
            } else {
              ""
            },
            class(si.get(k)),
            class(sa.get(k))
          ),
          format!(
            "graph after successive builds {:?} differs from building {:?} at once: {} is {:?} vs {:?}",
            parts,
            concat,
            k,
            si.get(k),
            sa.get(k)
          ),
          ctx(json!({"specifier": k})),
        );
        return out;
      }
    }
  }
  if let Some((path, a, b)) = first_diff(
    &without(&loose(incremental), &part_orphans),
    &without(&loose(at_once), &part_orphans),
  ) {
    // dependencies booked for a package by a module that was visited from
    // the manifest's embedded module information and whose content load then
    // failed: whether that module is visited at all depends on the route by
    // which it is first reached (the embedded-info shortcut exists on the
    // jsr: route only) - the bookkeeping side of the C01 orphan finding
    let visited_then_failed = path.starts_with("/packages/deps/")
      && [incremental, at_once].iter().any(|o| {
        loose(o)["slots"].as_object().is_some_and(|m| {
          m.iter().any(|(k, v)| {
            k.starts_with(crate::world::REGISTRY)
              && v.get("error").is_some()
              && {
                // the failed module or anything it (transitively) imports
                // - the orphans it leaves behind - imports a package
                let mut todo = vec![k.clone()];
                let mut seen = std::collections::BTreeSet::new();
                let mut found = false;
                while let Some(u) = todo.pop() {
                  if !seen.insert(u.clone()) || seen.len() > 64 {
                    continue;
                  }
                  if let Some(d) = world.descs.get(&u) {
                    for i in &d.items {
                      if i.spec.starts_with("jsr:") || i.spec.starts_with("npm:") {
                        found = true;
                      } else {
                        todo.push(resolve_text(&world, &d.url, &i.spec));
                      }
                    }
                  }
                }
                found
              }
          })
        })
      });
    out.violation(
      "C19",
      "partition-equals-at-once",
      if visited_then_failed {
        "partition:package-deps:importer-became-error".to_string()
      } else {
        format!("partition:{}", classify_path(&path))
      },
      format!(
        "graph after successive builds {:?} differs from building {:?} at once at {}: {} vs {}",
        parts,
        concat,
        path,
        truncate(&a.to_string(), 160),
        truncate(&b.to_string(), 160)
      ),
      ctx(json!({"path": path, "incremental": a, "at_once": b})),
    );
    return out;
  }
  // idempotence. What the unconditional, empty npm resolution request of a
  // build with nothing new answers is the embedder's business (a failing
  // dependency graph resolution may or may not be reported again), so
  // `npm_dep_graph_result` is left out when the simulated resolver fails.
  let strip_npm = |v: &Value| {
    let mut v = v.clone();
    if world.npm.dep_graph_fails {
      if let Some(o) = v.as_object_mut() {
        o.remove("npm_dep_graph_result");
      }
    }
    v
  };
  if let Some((path, a, b)) =
    first_diff(&strip_npm(incremental), &strip_npm(again))
  {
    out.violation(
      "C19",
      "rebuild-with-known-roots-changes-nothing",
      format!("idempotence:{}", classify_path(&path)),
      format!(
        "building again with roots the graph already has changed {}: {} -> {}",
        path,
        truncate(&a.to_string(), 160),
        truncate(&b.to_string(), 160)
      ),
      ctx(json!({"path": path})),
    );
    return out;
  }
  // reload
  if edit_target.is_some() && steps.len() >= np + 4 {
    let before = loose(again);
    let reloaded = loose(&steps[np + 2].1.obs);
    let scratch = loose(&steps[np + 3].1.obs);
    let empty = serde_json::Map::new();
    let sslots = scratch["slots"].as_object().unwrap_or(&empty);
    let rslots = reloaded["slots"].as_object().unwrap_or(&empty);
    let bslots = before["slots"].as_object().unwrap_or(&empty);
    // jsr requirements are resolved against what the graph selected before;
    // a from-scratch build of the new sources can select differently
    if let (Some(mr), Some(ms)) = (
      reloaded["packages"]["mappings"].as_object(),
      scratch["packages"]["mappings"].as_object(),
    ) {
      if let Some((req, nv)) = ms
        .iter()
        .find(|(req, nv)| mr.get(*req).is_some_and(|x| x != *nv))
      {
        out.violation(
          "C19",
          "reload-converges",
          "reload:jsr-version-selection-differs",
          format!(
            "requirement {} stays resolved to {} after the reload but a from-scratch build of the new sources selects {}",
            req, mr[req], nv
          ),
          ctx(json!({"req": req})),
        );
        return out;
      }
    }
    if let Some((spec, tr, ts)) = jsr_redirect_difference(&reloaded, &scratch) {
      out.violation(
        "C19",
        "reload-converges",
        "reload:jsr-version-selection-differs",
        format!(
          "{} stays redirected to {} after the reload but a from-scratch build of the new sources redirects it to {}",
          spec, tr, ts
        ),
        ctx(json!({"spec": spec})),
      );
      return out;
    }
    if !bslots.contains_key(edit_target.as_ref().unwrap().as_str()) {
      // the edited module was not in the graph: nothing to reload
      out.count("edit_target_not_in_graph", 1);
      return out;
    }
    let sreach = &steps[np + 3].1.reach;
    for (k, v) in sslots {
      if !sreach.contains(k) {
        // an entry of the from-scratch graph that nothing reaches (its only
        // importer became an error entry after its dependencies were
        // loaded - the C01 finding): not "reachable from the roots in the
        // new sources"
        out.count("scratch_orphan_ignored", 1);
        continue;
      }
      let rv = rslots.get(k);
      let same_slot = rv == Some(v);
      let same_module = scratch["modules"].get(k) == reloaded["modules"].get(k);
      if !same_slot || !same_module {
        let what = if !same_slot {
          format!("entry {:?} vs from-scratch {}", rv, v)
        } else {
          let d = first_diff(
            reloaded["modules"].get(k).unwrap_or(&Value::Null),
            scratch["modules"].get(k).unwrap_or(&Value::Null),
          );
          format!("module detail differs at {:?}", d.map(|d| d.0))
        };
        out.violation(
          "C19",
          "reload-converges",
          format!(
            "reload:{}{}{}",
            if !same_slot
              && rv.is_some()
              && crate::checks::worlds::context_sensitive(&world2, k)
            {
              "first-visitor-context:"
            } else {
              ""
            },
            if !same_slot {
              format!("entry:{}-vs-{}", slot_class(rv), slot_class(Some(v)))
            } else {
              "module-detail-differs".to_string()
            },
            if Some(k) == edit_target.as_ref() {
              // reload() loads the specifier as a root, without the
              // attribute its importers use
              let with_attr = world2.descs.values().any(|d| {
                d.items.iter().any(|it| {
                  it.attr.is_some()
                    && final_target(&world2, &resolve_text(&world2, &d.url, &it.spec))
                      == *k
                })
              });
              if with_attr {
                ":reloaded-specifier-is-imported-with-attribute"
              } else {
                ":reloaded-specifier"
              }
            } else {
              ""
            }
          ),
          format!(
            "after editing {:?} ({}) and reloading it, {} does not match the from-scratch build of the new sources: {}",
            edit_target,
            edit_desc,
            k,
            truncate(&what, 300)
          ),
          ctx(json!({"specifier": k})),
        );
        return out;
      }
    }
    for (k, v) in rslots {
      if !sslots.contains_key(k) {
        // a redirect source shows its target's entry; the target may be the
        // reloaded module itself
        if reloaded["redirects"].get(k).is_some()
          || Some(k) == edit_target.as_ref()
        {
          continue;
        }
        // leftover: must be what it was before the reload
        if bslots.get(k) != Some(v)
          || before["modules"].get(k) != reloaded["modules"].get(k)
        {
          // reload() loads the specifier as a root, without the attribute its
          // importers use: where a from-scratch build has an attribute error
          // the reloaded graph has a module - and that module's dependencies
          let et = edit_target.as_ref().unwrap();
          let target_with_attr = world2.descs.values().any(|d| {
            d.items.iter().any(|it| {
              it.attr.is_some()
                && final_target(&world2, &resolve_text(&world2, &d.url, &it.spec))
                  == *et
            })
          });
          // (the module may since have been overwritten by the attribute
          // error of another request that resolved to it)
          let new_below_reloaded = bslots.get(k).is_none() && target_with_attr;
          out.violation(
            "C19",
            "reload-leaves-unreachable-entries-alone",
            if new_below_reloaded {
              "reload:new-entry-below:reloaded-specifier-is-imported-with-attribute"
            } else {
              "reload:leftover-altered"
            },
            format!(
              "entry {} is not part of the from-scratch graph of the new sources and was altered by the reload: before {:?}, after {}",
              k,
              bslots.get(k),
              v
            ),
            ctx(json!({"specifier": k})),
          );
          return out;
        }
      }
    }
    out.count("probe.reload_checked", 1);
    if create_missing {
      out.count("probe.reload_of_an_error_entry_whose_module_was_created", 1);
    }
  }
  if parts.len() >= 2 || edit_target.is_some() {
    out.nontrivial_key = Some(crate::rng::mix(
      world_hash(&world),
      crate::rng::hash_str(9, &format!("{:?}{:?}{}", parts, edit_target, edit_desc)),
    ));
  }
  out.sample = Some(json!({"parts": parts, "edit_target": edit_target, "edit": edit_desc, "kind": sem.kind}));
  out
}
