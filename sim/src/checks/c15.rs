//! C15 — a walk visits exactly the selected reachable set, each entry once,
//! and its error listing is exactly the errors attached to what it visited.
//! Also hosts the graph-level half of C02 (validate() <=> error set empty).

use std::collections::BTreeSet;

use deno_graph::CheckJsOption;
use deno_graph::CheckJsResolver;
use deno_graph::GraphKind;
use deno_graph::ModuleEntryRef;
use deno_graph::ModuleGraph;
use deno_graph::ModuleSpecifier;
use deno_graph::WalkOptions;
use serde_json::json;

use crate::checks::common::*;
use crate::exec::RunEnd;
use crate::framework::CaseOutcome;
use crate::framework::CaseParams;
use crate::framework::CheckSpec;
use crate::framework::Tier;
use crate::framework::Violation;
use crate::refwalk::WalkOpts;
use crate::refwalk::Yield;
use crate::refwalk::err_key;
use crate::refwalk::reference_walk;
use crate::run::SchedOpts;
use crate::run::SemOpts;
use crate::shape::Shape;
use crate::shape::shape_of;
use crate::tape::Stream;
use crate::tape::Tape;
use crate::world::FaultPlan;
use crate::world::GenCfg;

pub fn spec() -> CheckSpec {
  CheckSpec {
    id: "C15",
    level: "exploration",
    rule: "case = generated world (plain / registry, with missing, erroring, redirecting, external entries) x build options, built under a drawn schedule; on the finished graph all 36 combinations of (kind x follow_dynamic x check_js in {true,false,custom predicate} x prefer_fast_check) x 4 root subsets (+ 2 skip sets) are walked and compared with a declarative least-fixpoint over the graph's recorded dependencies and redirects: no specifier twice, set equality of what is yielded (with entry kind), errors() equal as a multiset of (class, variant, specifier, range). distinct+non-trivial = distinct graphs (hash of canonical observation) with at least 2 entries",
    assumptions: vec![
      "the simulator's contribution is the population of graphs (produced by the real builder under schedules and world-level failures); the walk itself is synchronous",
      "the reference restates the walk's edge selection rules set-wise; it shares no code with the iterator",
    ],
    real_components: "deno_graph builder + ModuleEntryIterator + ModuleGraphErrorIterator",
    stub_components: "all seams simulated; reference walk over a plain-data copy of the graph",
    quick_cases: 8000,
    thorough_cases: 150000,
    run_case: |t, tier, p| run_case_for(t, tier, p, "C15"),
    systematic: |_| 0,
  }
}

#[derive(Debug)]
pub struct SaltedCheckJs(pub u64);
impl CheckJsResolver for SaltedCheckJs {
  fn resolve(&self, specifier: &ModuleSpecifier) -> bool {
    crate::rng::hash_str(self.0, specifier.as_str()) % 2 == 0
  }
}

pub fn kind_of(k: u8) -> GraphKind {
  crate::run::graph_kind(k)
}

pub fn all_walk_opts(salt: u64) -> Vec<WalkOpts> {
  let mut v = vec![];
  for kind in 0..3u8 {
    for follow_dynamic in [false, true] {
      for check_js in 0..3u8 {
        for prefer_fast_check in [false, true] {
          v.push(WalkOpts {
            kind,
            follow_dynamic,
            check_js,
            check_js_salt: salt,
            prefer_fast_check,
          });
        }
      }
    }
  }
  v
}

pub fn root_subsets(shape: &Shape, salt: u64) -> Vec<Vec<String>> {
  let mut sets = vec![shape.roots.clone()];
  let all: Vec<&String> =
    shape.slots.keys().chain(shape.redirects.keys()).collect();
  for i in 0..3u64 {
    let s: BTreeSet<String> = all
      .iter()
      .filter(|u| crate::rng::hash_str(salt ^ (i * 77 + 1), u) % 3 == 0)
      .map(|u| (*u).clone())
      .collect();
    // no duplicate roots: callers pass sets (graph.roots is one)
    let mut s: Vec<String> = s.into_iter().collect();
    if s.is_empty() {
      if let Some(f) = all.get((salt as usize + i as usize) % all.len().max(1)) {
        s.push((*f).clone());
      }
    }
    // a root that is in the graph neither as slot nor redirect
    if i == 2 {
      s.push("file:///not/in/graph.ts".to_string());
    }
    sets.push(s);
  }
  sets
}

/// Run the walk oracles on one graph. `which`: "C15" (walk + errors) or
/// "C02" (validate verdict + error member properties).
pub fn walk_oracles(
  graph: &ModuleGraph,
  shape: &Shape,
  salt: u64,
  which: &str,
  violations: &mut Vec<Violation>,
  counters: &mut Vec<(&'static str, u64)>,
) {
  let custom = SaltedCheckJs(salt);
  let mut walks = 0u64;
  for o in all_walk_opts(salt) {
    let check_js = match o.check_js {
      0 => CheckJsOption::True,
      1 => CheckJsOption::False,
      _ => CheckJsOption::Custom(&custom),
    };
    let mk = || WalkOptions {
      check_js,
      follow_dynamic: o.follow_dynamic,
      kind: kind_of(o.kind),
      prefer_fast_check_graph: o.prefer_fast_check,
    };
    for (ri, roots) in root_subsets(shape, salt).into_iter().enumerate() {
      let root_urls: Vec<ModuleSpecifier> = roots
        .iter()
        .filter_map(|r| ModuleSpecifier::parse(r).ok())
        .collect();
      let roots: Vec<String> = root_urls.iter().map(|u| u.to_string()).collect();
      walks += 1;
      let ctx = || {
        json!({"walk_options": format!("{:?}", o), "roots": roots, "root_set": ri})
      };
      if which == "C15" {
        // 1. plain walk
        let mut seen = BTreeSet::new();
        let mut actual = BTreeSet::new();
        for (spec, entry) in graph.walk(root_urls.iter(), mk()) {
          let y = match entry {
            ModuleEntryRef::Module(_) => Yield::Module(spec.to_string()),
            ModuleEntryRef::Err(_) => Yield::Err(spec.to_string()),
            ModuleEntryRef::Redirect(to) => {
              Yield::Redirect(spec.to_string(), to.to_string())
            }
          };
          if !seen.insert(spec.to_string()) {
            violations.push(Violation {
              property: "C15".into(),
              oracle: "each-entry-once".into(),
              signature: "yielded-twice".into(),
              message: format!("walk yielded {} twice", spec),
              detail: ctx(),
              replay_as: None,
            });
            return;
          }
          actual.insert(y);
        }
        let expected = reference_walk(shape, &roots, &o, &BTreeSet::new());
        if actual != expected {
          let missing: Vec<_> = expected.difference(&actual).collect();
          let extra: Vec<_> = actual.difference(&expected).collect();
          violations.push(Violation {
            property: "C15".into(),
            oracle: "walk-set".into(),
            signature: format!(
              "walk-set:{}{}:kind{}",
              if missing.is_empty() { "" } else { "missing" },
              if extra.is_empty() { "" } else { "extra" },
              o.kind
            ),
            message: format!(
              "walk differs from the reachable set: not yielded {:?}, yielded but not reachable {:?}",
              missing, extra
            ),
            detail: ctx(),
            replay_as: None,
          });
          return;
        }
        // 2. skip sets
        if ri < 2 {
          let skip: BTreeSet<String> = actual
            .iter()
            .filter_map(|y| match y {
              Yield::Module(s) | Yield::Redirect(s, _) => Some(s.clone()),
              _ => None,
            })
            .filter(|s| crate::rng::hash_str(salt ^ 0x51, s) % 3 == 0)
            .collect();
          if !skip.is_empty() {
            let mut it = graph.walk(root_urls.iter(), mk());
            let mut actual2 = BTreeSet::new();
            while let Some((spec, entry)) = it.next() {
              let s = spec.to_string();
              actual2.insert(match entry {
                ModuleEntryRef::Module(_) => Yield::Module(s.clone()),
                ModuleEntryRef::Err(_) => Yield::Err(s.clone()),
                ModuleEntryRef::Redirect(to) => {
                  Yield::Redirect(s.clone(), to.to_string())
                }
              });
              if skip.contains(&s) {
                it.skip_previous_dependencies();
              }
            }
            // the reference with a skip set is order dependent only through
            // which entries are reachable by another path; the fixpoint
            // handles that (a skipped node's edges are never used)
            let expected2 = reference_walk(shape, &roots, &o, &skip);
            // skipping can only be compared when no yielded-and-skipped node
            // outside the expected set exists (skip decided on actual yields)
            if actual2 != expected2 {
              violations.push(Violation {
                property: "C15".into(),
                oracle: "walk-set-with-skips".into(),
                signature: format!("walk-skip-set:kind{}", o.kind),
                message: format!(
                  "walk with skipped dependencies differs: not yielded {:?}, extra {:?}",
                  expected2.difference(&actual2).collect::<Vec<_>>(),
                  actual2.difference(&expected2).collect::<Vec<_>>()
                ),
                detail: ctx(),
                replay_as: None,
              });
              return;
            }
          }
        }
      }
      // 3. errors
      let mut actual_errs: Vec<_> = graph
        .walk(root_urls.iter(), mk())
        .errors()
        .map(|e| err_key(&e))
        .collect();
      actual_errs.sort();
      let (expected_errs, optional_errs) =
        crate::refwalk::reference_errors_with_optional(shape, &roots, &o);
      // reports the reference allows but does not require: drop the copies
      // in excess of what is required, at most one per optional report
      for k in &optional_errs {
        let have = actual_errs.iter().filter(|e| *e == k).count();
        let need = expected_errs.iter().filter(|e| *e == k).count();
        if have > need {
          if let Some(i) = actual_errs.iter().position(|e| e == k) {
            actual_errs.remove(i);
          }
        }
      }
      if which == "C15" && actual_errs != expected_errs {
        let missing: Vec<_> = expected_errs
          .iter()
          .filter(|e| !actual_errs.contains(e))
          .collect();
        let extra: Vec<_> = actual_errs
          .iter()
          .filter(|e| !expected_errs.contains(e))
          .collect();
        violations.push(Violation {
          property: "C15".into(),
          oracle: "walk-errors".into(),
          signature: format!(
            "walk-errors:{}{}",
            missing
              .first()
              .map(|e| format!("missing:{}:{}", e.0, e.1))
              .unwrap_or_default(),
            extra
              .first()
              .map(|e| format!("extra:{}:{}", e.0, e.1))
              .unwrap_or_default()
          ),
          message: format!(
            "errors() differs from the errors attached to what was visited: not reported {:?}, reported but not expected {:?} (counts {} vs {})",
            missing, extra, actual_errs.len(), expected_errs.len()
          ),
          detail: ctx(),
          replay_as: None,
        });
        return;
      }
      if which == "C02" {
        let verdict = graph.walk(root_urls.iter(), mk()).validate();
        match (&verdict, expected_errs.is_empty()) {
          (Ok(()), true) => {}
          (Err(e), false) => {
            let k = err_key(e);
            if !expected_errs.contains(&k) && !optional_errs.contains(&k) {
              violations.push(Violation {
                property: "C02".into(),
                oracle: "validate-error-is-reachable-failure".into(),
                signature: format!("validate-error-not-expected:{}:{}", k.0, k.1),
                message: format!(
                  "validate() returned {:?} which is not among the failures reachable under these options {:?}",
                  k, expected_errs
                ),
                detail: ctx(),
                replay_as: None,
              });
              return;
            }
          }
          (Ok(()), false) => {
            violations.push(Violation {
              property: "C02".into(),
              oracle: "validate-iff-failure-reachable".into(),
              signature: format!(
                "validate-ok-despite:{}:{}",
                expected_errs[0].0, expected_errs[0].1
              ),
              message: format!(
                "validate() succeeded although a followed edge reaches a failure: {:?}",
                expected_errs
              ),
              detail: ctx(),
              replay_as: None,
            });
            return;
          }
          (Err(e), true) => {
            let k = err_key(e);
            violations.push(Violation {
              property: "C02".into(),
              oracle: "validate-iff-failure-reachable".into(),
              signature: format!("validate-err-without-failure:{}:{}", k.0, k.1),
              message: format!(
                "validate() failed with {:?} although no failure is reachable along the selected edges",
                k
              ),
              detail: ctx(),
              replay_as: None,
            });
            return;
          }
        }
      }
    }
  }
  counters.push(("walks", walks));
}

pub fn run_case_for(
  tape: &mut Tape,
  _tier: Tier,
  _p: &CaseParams,
  which: &'static str,
) -> CaseOutcome {
  let mut out = CaseOutcome::default();
  let cfg = GenCfg::basic();
  let world = crate::checks::worlds::gen_any_world(tape, &cfg);
  let mut sem = SemOpts::draw(tape);
  sem.with_locker = world.lockfile.present;
  let salt = tape.draw(Stream::Options, u32::MAX) as u64;
  let sched = SchedOpts::draw(tape);
  let hash_seed = draw_hash_seed(tape);
  let t0 = std::mem::replace(tape, Tape::replay(Default::default()));
  let res = build_fresh(
    &world,
    &FaultPlan::default(),
    &sem,
    &sched,
    t0,
    hash_seed,
    false,
    move |session, report, _| {
      let mut violations = vec![];
      let mut counters = vec![];
      if report.end == RunEnd::Done {
        let shape = shape_of(&session.graph);
        walk_oracles(
          &session.graph,
          &shape,
          salt,
          which,
          &mut violations,
          &mut counters,
        );
        counters.push(("entries", shape.slots.len() as u64));
      }
      (violations, counters)
    },
  );
  let (built, t1) = match res {
    Ok(x) => x,
    Err(p) => {
      out.harness_error = Some(format!("run thread panicked: {}", p));
      return out;
    }
  };
  *tape = t1;
  add_summary(&mut out, &built.summary, &sched);
  if built.end != RunEnd::Done {
    out.count("abnormal_end", 1);
    return out;
  }
  let (violations, counters) = built.extra;
  for (k, v) in counters {
    out.count(k, v);
  }
  let ctx = json!({"sem": sem, "sched": sched, "hash_seed": hash_seed, "world": world.to_json()});
  for mut v in violations {
    if let serde_json::Value::Object(m) = &mut v.detail {
      m.insert("case".into(), ctx.clone());
    }
    out.violations.push(v);
  }
  let n = built.summary.n_modules + built.summary.error_kinds.iter().map(|e| e.1).sum::<u64>();
  if n >= 2 {
    out.nontrivial_key = Some(value_hash(&built.obs));
  }
  out.sample = Some(json!({
    "roots": world.roots, "entries": n, "redirects": built.summary.n_redirects,
    "sem": sem, "walk_option_sets": 36, "root_subsets": 4,
  }));
  out
}
