//! C04 — build results do not depend on load completion order or on the run.
//! Differential simulation: every schedule / hash seed ≡ the baseline.

use serde_json::json;

use crate::checks::common::*;
use crate::exec::RunEnd;
use crate::framework::CaseOutcome;
use crate::framework::CaseParams;
use crate::framework::CheckSpec;
use crate::framework::Tier;
use crate::observe::first_diff;
use crate::run::SchedOpts;
use crate::run::SemOpts;
use crate::tape::Stream;
use crate::tape::Tape;
use crate::world::FaultPlan;
use crate::world::GenCfg;
use crate::world::gen_world as gen_world_plain;
use crate::world::gen_world;

pub fn spec() -> CheckSpec {
  CheckSpec {
    id: "C04",
    level: "exploration",
    rule: "case = generated world (plain URLs, redirects, faults-as-entries, registry packages) x build options; baseline = immediate completion, hash seed 0; k variants each drawing scheduling policy, executor mode, analyzer suspension, spurious wakes, directory order and hash seed; canonical observation (graph JSON, slots, errors with referrers, packages, lockfile) must equal the baseline. distinct+non-trivial = distinct (world hash, event-order signature) pairs where the variant's event order differs from the baseline's",
    assumptions: vec![
      "loader answers are a function of (url, cache setting, n-th request) and the cache tier is frozen during a build, so the environment is identical across schedules",
      "the canonical observation erases only orders the API leaves undefined (dependency sets of packages)",
    ],
    real_components: "deno_graph builder/walk/jsr store/rt, deno_ast+swc, futures, deno_unsync, deno_semver, serde_json",
    stub_components: "Loader, Executor, Locker, NpmResolver, Resolver, FileSystem, Reporter (simulated seams); hash keys via getrandom interposition",
    quick_cases: 2500,
    thorough_cases: 40000,
    run_case,
    // systematic cases: tiny worlds whose whole scheduler choice tree (which
    // task is polled, which outstanding load completes) is enumerated
    systematic: |t| match t {
      Tier::Quick => 24,
      Tier::Thorough => 1500,
    },
  }
}

/// Depth-first enumeration of every schedule of a tiny world under the
/// `uniform` policy (every enabled poll / completion is a branch).
fn enumerate_case(tape: &mut Tape, tier: Tier) -> CaseOutcome {
  let mut out = CaseOutcome::default();
  let mut cfg = GenCfg::basic();
  cfg.max_modules = 4;
  cfg.max_items = 2;
  cfg.max_roots = 2;
  let world = if tape.draw(Stream::World, 4) == 3 {
    let mut rc = crate::checks::worlds::RegGenCfg::full();
    rc.max_packages = 1;
    rc.max_versions = 2;
    crate::checks::worlds::gen_registry_world(tape, &rc)
  } else {
    gen_world_plain(tape, &cfg)
  };
  let mut sem = SemOpts::draw(tape);
  sem.with_locker = world.lockfile.present;
  let plan = FaultPlan::default();
  let base_sched = SchedOpts::default();
  let (base, _) = match build_fresh(
    &world,
    &plan,
    &sem,
    &base_sched,
    Tape::replay(Default::default()),
    0,
    false,
    |_, _, _| (),
  ) {
    Ok(x) => x,
    Err(p) => {
      out.harness_error = Some(format!("baseline thread panicked: {}", p));
      return out;
    }
  };
  add_summary(&mut out, &base.summary, &base_sched);
  if base.end != RunEnd::Done {
    out.count("baseline_abnormal", 1);
    return out;
  }
  let sched = SchedOpts {
    policy: 3, // uniform: every enabled action is a branch
    inline_exec: tape.draw(Stream::Options, 2) == 1,
    spurious: false,
    analyzer_suspend: false,
    fs_order_seed: 0,
  };
  let budget: u64 = match tier {
    Tier::Quick => 400,
    Tier::Thorough => 6000,
  };
  let wh = world_hash(&world);
  let mut prefix: Vec<u32> = vec![];
  let mut leaves = 0u64;
  let mut complete = false;
  loop {
    if leaves >= budget {
      break;
    }
    let t = Tape::replay(crate::tape::Tapes {
      schedule: prefix.clone(),
      ..Default::default()
    });
    let (var, t) = match build_fresh(
      &world, &plan, &sem, &sched, t, 0, false, |_, _, _| (),
    ) {
      Ok(x) => x,
      Err(p) => {
        out.harness_error = Some(format!("variant thread panicked: {}", p));
        return out;
      }
    };
    leaves += 1;
    out
      .distinct
      .entry("world_x_order")
      .or_default()
      .push(crate::rng::mix(wh, var.summary.order_sig));
    let replay_tapes = || {
      let mut tp = tape.rec.clone();
      tp.schedule = t.rec.schedule.clone();
      tp
    };
    if var.end != RunEnd::Done {
      out.violation(
        "C04",
        "schedule-enumeration",
        format!("abnormal-end:{}", end_class(&var.end)),
        format!("schedule {:?} ended {:?}", t.rec.schedule, var.end),
        json!({"schedule": t.rec.schedule, "sem": sem, "world": world.to_json()}),
      );
      let _ = replay_tapes;
      return out;
    }
    if let Some((path, a, b)) = first_diff(&base.obs, &var.obs) {
      out.violation(
        "C04",
        "schedule-enumeration",
        format!("diff:{}|cause:schedule", classify_path(&path)),
        format!(
          "observation differs from baseline at {} under enumerated schedule {:?}: baseline={} variant={}",
          path,
          t.rec.schedule,
          truncate(&a.to_string(), 200),
          truncate(&b.to_string(), 200)
        ),
        json!({"path": path, "schedule": t.rec.schedule, "sem": sem, "world": world.to_json()}),
      );
      return out;
    }
    // next schedule in depth-first order
    let vals = t.rec.schedule.clone();
    let ars = t.schedule_arity.clone();
    let mut i = vals.len();
    let mut next = None;
    while i > 0 {
      i -= 1;
      if vals[i] + 1 < ars[i] {
        let mut p = vals[..i].to_vec();
        p.push(vals[i] + 1);
        next = Some(p);
        break;
      }
    }
    match next {
      Some(p) => prefix = p,
      None => {
        complete = true;
        break;
      }
    }
  }
  out.count("enumerated_schedules", leaves);
  out.count(
    if complete {
      "worlds_with_all_schedules_enumerated"
    } else {
      "worlds_enumeration_cut_by_budget"
    },
    1,
  );
  out.count("builds", leaves);
  if leaves > 1 {
    out.nontrivial_key = Some(wh);
  }
  out.sample = Some(json!({
    "mode": "all schedules of a tiny world",
    "roots": world.roots, "entries": world.remote.len(),
    "schedules": leaves, "complete": complete,
  }));
  out
}

pub fn run_case(tape: &mut Tape, tier: Tier, p: &CaseParams) -> CaseOutcome {
  if p.systematic_index.is_some() {
    return enumerate_case(tape, tier);
  }
  let mut out = CaseOutcome::default();
  let cfg = GenCfg::basic();
  let mut world = crate::checks::worlds::gen_any_world(tape, &cfg);
  let deferred_shape =
    tape.draw(Stream::World, 5) == 4 && add_deferred_shape(tape, &mut world);
  if !world.registry.packages.is_empty() && tape.draw(Stream::World, 6) == 5 {
    // versions that differ only in build metadata have equal precedence:
    // whichever is selected, it has to be the same one in every run
    if let Some(pkg) = world.registry.packages.values_mut().next() {
      let best = pkg
        .versions
        .keys()
        .filter_map(|v| deno_semver::Version::parse_standard(v).ok().map(|p| (p, v.clone())))
        .max_by(|a, b| a.0.cmp(&b.0))
        .map(|x| x.1);
      if let Some(v) = best.filter(|v| !v.contains('+')) {
        let proto = pkg.versions[&v].clone();
        for b in ["a", "b", "c"] {
          pkg.versions.insert(format!("{}+{}", v, b), proto.clone());
        }
        out.count("probe.build_metadata_sibling_versions", 1);
      }
    }
    world.render_registry(&crate::checks::worlds::embed_info);
  }
  let mut sem = SemOpts::draw(tape);
  if deferred_shape {
    sem.unstable_text = true;
    out.count("probe.asset_then_module_world", 1);
  }
  sem.with_locker = world.lockfile.present || tape.draw(Stream::Options, 3) == 2;
  sem.prefer_cached_jsr = !world.registry.packages.is_empty()
    && tape.draw(Stream::Options, 4) == 3;
  let plan = FaultPlan::default();
  let k = match tier {
    Tier::Quick => 6,
    Tier::Thorough => 24,
  };
  let base_sched = SchedOpts::default();
  let t0 = std::mem::replace(tape, Tape::replay(Default::default()));
  let (base, t1) = match build_fresh(
    &world, &plan, &sem, &base_sched, t0, 0, false, |_, _, _| (),
  ) {
    Ok(x) => x,
    Err(p) => {
      out.harness_error = Some(format!("baseline thread panicked: {}", p));
      return out;
    }
  };
  *tape = t1;
  add_summary(&mut out, &base.summary, &base_sched);
  let wh = world_hash(&world);
  if base.end != RunEnd::Done {
    // abnormal baseline is C03's business; nothing to compare against
    out.count("baseline_abnormal", 1);
    return out;
  }
  out
    .distinct
    .entry("final_states")
    .or_default()
    .push(value_hash(&base.obs));
  for vi in 0..k {
    let sched = SchedOpts::draw(tape);
    let hash_seed = draw_hash_seed(tape);
    let t0 = std::mem::replace(tape, Tape::replay(Default::default()));
    let (var, t1) = match build_fresh(
      &world, &plan, &sem, &sched, t0, hash_seed, false, |_, _, _| (),
    ) {
      Ok(x) => x,
      Err(p) => {
        out.harness_error = Some(format!("variant thread panicked: {}", p));
        return out;
      }
    };
    *tape = t1;
    add_summary(&mut out, &var.summary, &sched);
    if var.summary.order_sig != base.summary.order_sig {
      out.nontrivial_key =
        Some(crate::rng::mix(wh, var.summary.order_sig));
      out
        .distinct
        .entry("world_x_order")
        .or_default()
        .push(crate::rng::mix(wh, var.summary.order_sig));
    }
    if var.end != RunEnd::Done {
      out.violation(
        "C04",
        "schedule-differential",
        format!("abnormal-end:{}", end_class(&var.end)),
        format!(
          "baseline build finished but variant {} ended {:?}",
          vi, var.end
        ),
        json!({"sched": sched, "hash_seed": hash_seed, "world": world.to_json(), "sem": sem}),
      );
      return out;
    }
    if let Some((path, a, b)) = first_diff(&base.obs, &var.obs) {
      // attribute the cause: hash only, schedule only, or both
      let only_hash = build_fresh(
        &world,
        &plan,
        &sem,
        &base_sched,
        Tape::replay(Default::default()),
        hash_seed,
        false,
        |_, _, _| (),
      )
      .map(|(b2, _)| first_diff(&base.obs, &b2.obs).is_some())
      .unwrap_or(false);
      let cause = if only_hash { "hash-seed" } else { "schedule" };
      out.violation(
        "C04",
        "schedule-differential",
        format!("diff:{}|cause:{}", classify_path(&path), cause),
        format!(
          "observation differs from baseline at {} (cause: {}): baseline={} variant={}",
          path,
          cause,
          truncate(&a.to_string(), 200),
          truncate(&b.to_string(), 200)
        ),
        json!({
          "path": path, "baseline": a, "variant": b, "cause": cause,
          "variant_index": vi, "sched": sched, "hash_seed": hash_seed,
          "sem": sem, "world": world.to_json(),
        }),
      );
      return out;
    }
  }
  if out.sample.is_none() {
    out.sample = Some(json!({
      "roots": world.roots,
      "n_entries": world.remote.len(),
      "sem": sem,
      "baseline_ops": base.summary.ops,
      "variants": k,
    }));
  }
  out
}

/// Modules that are requested as a module while their asset load (`with {
/// type: "text" }`) is still outstanding: the builder defers the second load
/// until the pending ones are done and then starts the deferred ones in the
/// iteration order of `PendingState.deferred`. The deferred modules share a
/// missing dependency, so the order is visible in that error's referrer.
fn add_deferred_shape(tape: &mut Tape, w: &mut crate::world::World) -> bool {
  use crate::world::Form;
  use crate::world::Item;
  use crate::world::Lang;
  use crate::world::ModuleDesc;
  let Some(root) = w.roots.first().cloned() else {
    return false;
  };
  let Some(mut rd) = w.descs.get(&root).cloned() else {
    return false;
  };
  if !rd.lang.is_script()
    || rd.lang.is_declaration()
    || !(root.starts_with("file:///") || root.starts_with("http"))
  {
    return false;
  }
  let base = root[..root.rfind('/').map(|i| i + 1).unwrap_or(0)].to_string();
  let k = tape.range(Stream::World, 2, 4);
  let mut user = ModuleDesc::new(format!("{}dfr_user.ts", base), Lang::Ts);
  let mut front = vec![Item::new(Form::SideEffect, "./dfr_user.ts")];
  for i in 0..k {
    let mut d = ModuleDesc::new(format!("{}dfr{}.ts", base, i), Lang::Ts);
    d.items
      .push(Item::new(Form::SideEffect, "./dfr_missing.ts"));
    w.add_desc(d);
    let mut it = Item::new(Form::Default, format!("./dfr{}.ts", i));
    it.attr = Some("text".into());
    front.push(it);
    user
      .items
      .push(Item::new(Form::SideEffect, format!("./dfr{}.ts", i)));
  }
  let rot = tape.draw(Stream::World, k) as usize;
  user.items.rotate_left(rot);
  w.add_desc(user);
  rd.items.splice(0..0, front);
  w.add_desc(rd);
  // an alias of the edited root serves what the root serves
  crate::world::refresh_aliases(w);
  true
}

pub fn end_class(e: &RunEnd) -> &'static str {
  match e {
    RunEnd::Done => "done",
    RunEnd::Panic(_) => "panic",
    RunEnd::Deadlock => "deadlock",
    RunEnd::StepBound(_) => "step-bound",
  }
}

pub fn truncate(s: &str, n: usize) -> String {
  if s.len() <= n {
    s.to_string()
  } else {
    let mut e = n;
    while !s.is_char_boundary(e) {
      e -= 1;
    }
    format!("{}…", &s[..e])
  }
}
