//! C12 — fast check is all-or-nothing per package, cache-transparent and
//! deterministic. History simulation over the `FastCheckCache` seam: build ->
//! fast check with a persistent cache -> edit one source -> rebuild -> fast
//! check again ..., compared with cache-less runs on the same graph and with a
//! cache-less run under another hash seed.

use std::cell::RefCell;
use std::collections::BTreeMap;
use std::collections::BTreeSet;
use std::rc::Rc;

use deno_graph::BuildFastCheckTypeGraphOptions;
use deno_graph::FastCheckTypeModuleSlot;
use deno_graph::Module;
use deno_graph::ModuleGraph;
use deno_graph::ast::CapturingModuleAnalyzer;
use deno_graph::fast_check::FastCheckCache;
use deno_graph::fast_check::FastCheckCacheItem;
use deno_graph::fast_check::FastCheckCacheKey;
use serde_json::Value;
use serde_json::json;

use crate::checks::c04::truncate;
use crate::exec::RunEnd;
use crate::framework::CaseOutcome;
use crate::framework::CaseParams;
use crate::framework::CheckSpec;
use crate::framework::Tier;
use crate::hashseed::with_hash_seed;
use crate::run::Operation;
use crate::run::SchedOpts;
use crate::run::SemOpts;
use crate::run::Session;
use crate::run::run_op_with;
use crate::tape::Stream;
use crate::tape::Tape;
use crate::world::*;

pub fn spec() -> CheckSpec {
  CheckSpec {
    id: "C12",
    level: "exploration",
    rule: "case = history of length 2-4 over a generated registry of 1-2 TypeScript packages, in one case of three with a workspace member (local files, every export a root) analysed with them, optionally a second version of the dependency package plus a helper package that privately pins the old one, JavaScript entrypoints (untyped or self-typed), a cross-package barrel (entrypoints, re-exported and private modules, cross-file and cross-package type references, annotated / trivially inferable / non-inferable exported declarations): Build (fresh graph, simulated loader, drawn schedule) -> FastCheck with a cache that persists over the history (with lost writes and evictions) -> Edit one source (body only, signature, add export, introduce or fix a non-inferable export, private module, dependency package, drop the dependency on the other package; root edits: direct import of the dependency, set of used exports, import of the pinning helper) -> Build -> FastCheck ... After every fast check with the cache the same graph is fast-checked without a cache, and once more without a cache on another thread under a different hash seed. Oracles: the set of modules with emitted output, their text, recorded dependencies and source maps are identical with and without the cache; the two cache-less runs are identical in every fast-check slot; per analysed package either every entrypoint has emitted output and no module of it carries diagnostics, or no module of it has emitted output and every entrypoint carries diagnostics; the dependencies recorded for an emitted module are those the emitted text declares when re-analysed. distinct+non-trivial = distinct (world, history) pairs with at least one warm or stale cache lookup",
    assumptions: vec![
      "the generated TypeScript is a small declaration language, enough for emit and diagnostic outcomes and public/private splits; the transform itself over arbitrary programs is outside this family",
      "with a cache, diagnostics are compared only as 'has diagnostics' (the cached path reports a placeholder diagnostic)",
    ],
    real_components: "deno_graph fast_check (range finder, transform, cache key and validity), ModuleGraph::build_fast_check_type_graph, symbols, deno_ast+swc; builder for the graphs",
    stub_components: "FastCheckCache (persistent over the history, lossy), Loader and other seams simulated",
    quick_cases: 4000,
    thorough_cases: 100000,
    run_case,
    systematic: |_| 0,
  }
}

/// Persistent, lossy cache.
struct SimFcCache {
  map: RefCell<BTreeMap<u64, FastCheckCacheItem>>,
  salt: u64,
  lossy: bool,
  gets: RefCell<u64>,
  hits: RefCell<u64>,
  sets: RefCell<u64>,
  lost_sets: RefCell<u64>,
  evictions: RefCell<u64>,
}

impl FastCheckCache for SimFcCache {
  fn hash_seed(&self) -> &'static str {
    "dsim"
  }
  fn get(&self, key: FastCheckCacheKey) -> Option<FastCheckCacheItem> {
    let n = {
      let mut g = self.gets.borrow_mut();
      *g += 1;
      *g
    };
    if self.lossy
      && crate::rng::mix(self.salt, key.as_u64() ^ n.wrapping_mul(77)) % 11 == 0
    {
      if self.map.borrow_mut().remove(&key.as_u64()).is_some() {
        *self.evictions.borrow_mut() += 1;
      }
      return None;
    }
    let v = self.map.borrow().get(&key.as_u64()).cloned();
    if v.is_some() {
      *self.hits.borrow_mut() += 1;
    }
    v
  }
  fn set(&self, key: FastCheckCacheKey, value: FastCheckCacheItem) {
    let n = {
      let mut g = self.sets.borrow_mut();
      *g += 1;
      *g
    };
    if self.lossy
      && crate::rng::mix(self.salt ^ 0x55, key.as_u64() ^ n.wrapping_mul(131)) % 9 == 0
    {
      *self.lost_sets.borrow_mut() += 1;
      return;
    }
    self.map.borrow_mut().insert(key.as_u64(), value);
  }
}

#[derive(Clone, Debug, PartialEq, Eq)]
enum FcSlot {
  Module {
    source: String,
    source_map: String,
    deps: Vec<(String, Option<String>, Option<String>)>,
    /// debug rendering of the declaration-file program (only with `fast_check_dts`)
    dts: Option<String>,
  },
  Error(Vec<String>),
}

type Snapshot = BTreeMap<String, FcSlot>;

fn snapshot(graph: &ModuleGraph) -> Snapshot {
  let mut s = Snapshot::new();
  for m in graph.modules() {
    if let Module::Js(js) = m {
      match &js.fast_check {
        Some(FastCheckTypeModuleSlot::Module(fc)) => {
          s.insert(
            js.specifier.to_string(),
            FcSlot::Module {
              source: fc.source.to_string(),
              source_map: fc.source_map.to_string(),
              deps: fc
                .dependencies
                .iter()
                .map(|(k, d)| {
                  (
                    k.clone(),
                    d.maybe_code.maybe_specifier().map(|u| u.to_string()),
                    d.maybe_type.maybe_specifier().map(|u| u.to_string()),
                  )
                })
                .collect(),
              dts: fc.dts.as_ref().map(|d| {
                format!(
                  "{:?} // {} diagnostics: {:?}",
                  d.program,
                  d.diagnostics.len(),
                  d.diagnostics.iter().map(|x| x.to_string()).collect::<Vec<_>>()
                )
              }),
            },
          );
        }
        Some(FastCheckTypeModuleSlot::Error(diags)) => {
          s.insert(
            js.specifier.to_string(),
            FcSlot::Error(diags.iter().map(|d| d.to_string()).collect()),
          );
        }
        None => {}
      }
    }
  }
  s
}

// ---------------------------------------------------------------------------
// the declaration generator

#[derive(Clone, Debug)]
struct PkgSrc {
  name: String,
  version: String,
  /// path -> declaration lines
  files: BTreeMap<String, Vec<String>>,
  exports: BTreeMap<String, String>,
  /// a workspace member (local files under `MEMBER_BASE`) instead of a
  /// registry package
  member: bool,
  /// the root imports this export of the package (a used export is an
  /// entrypoint of the analysis and part of the cache key)
  root_imports_extra: bool,
  /// further published versions with the same files
  extra_versions: Vec<String>,
  /// the helper package whose private import pins an old version of the
  /// dependency package; the root imports it only while this is set
  pin: Option<bool>,
}

const MEMBER_BASE: &str = "file:///ws/m/";

fn gen_pkg(tape: &mut Tape, name: &str, dep: Option<&str>) -> PkgSrc {
  let mut files: BTreeMap<String, Vec<String>> = BTreeMap::new();
  let mut types = vec![
    "export type T0 = string | number;".to_string(),
    "export interface Shape { a: T0; b?: boolean }".to_string(),
  ];
  if let Some(d) = dep {
    types.push(format!("import type {{ X }} from \"jsr:{}@1\";", d));
    types.push("export type Wrapped = X | T0;".to_string());
  }
  files.insert("/types.ts".into(), types);
  files.insert(
    "/priv.ts".into(),
    vec![
      "export function helper(n: number): number { return n + 1; }".to_string(),
      "export const secret = 42;".to_string(),
    ],
  );
  let mut util = vec![
    "import type { T0 } from \"./types.ts\";".to_string(),
    "export function u0(v: T0): T0 { return v; }".to_string(),
    "export const u1: number = 7;".to_string(),
  ];
  if tape.draw(Stream::World, 3) == 2 {
    util.push("export class Box { value: T0 = 0; get(): T0 { return this.value; } private hidden = 1; #secret = 2; }".to_string());
  }
  if tape.draw(Stream::World, 6) == 5 {
    // a non-inferable export in a non-entry module of the public API
    util.push("export function ubad(n: number) { return n * 2; }".to_string());
  }
  files.insert("/util.ts".into(), util);
  let mut m = vec![
    "import { helper } from \"./priv.ts\";".to_string(),
    "import type { T0, Shape } from \"./types.ts\";".to_string(),
  ];
  match tape.draw(Stream::World, 3) {
    0 => m.push("export { u0, u1 } from \"./util.ts\";".to_string()),
    1 => m.push("export * from \"./util.ts\";".to_string()),
    _ => m.push("export * as util from \"./util.ts\";".to_string()),
  }
  let nf = tape.range(Stream::World, 1, 3);
  for i in 0..nf {
    match tape.draw(Stream::World, 5) {
      0 => m.push(format!(
        "export function f{i}(a: number): T0 {{ return helper(a); }}"
      )),
      1 => m.push(format!("export const c{i}: Shape = {{ a: helper({i}) }};")),
      2 => m.push(format!("export const lit{i} = {i};")),
      3 => m.push(format!(
        "export class K{i} {{ x: T0 = 1; m(p: string): void {{ helper(p.length); }} private q = helper(1); }}"
      )),
      _ => m.push(format!("export interface I{i} {{ s: Shape; n: T0 }}")),
    }
  }
  if dep.is_some() && tape.draw(Stream::World, 2) == 1 {
    m.push("import type { Wrapped } from \"./types.ts\";".to_string());
    m.push("export function wrap(w: Wrapped): Wrapped { return w; }".to_string());
  }
  m.push("function hidden(): number { return helper(3); }".to_string());
  if tape.draw(Stream::World, 5) == 4 {
    m.push("export function bad(n: number) { return hidden() + n; }".to_string());
  }
  files.insert("/mod.ts".into(), m);
  let mut exports = BTreeMap::new();
  exports.insert(".".to_string(), "./mod.ts".to_string());
  if tape.draw(Stream::World, 3) == 2 {
    files.insert(
      "/extra.ts".into(),
      vec![
        "import type { T0 } from \"./types.ts\";".to_string(),
        "export function extra(v: T0): T0 { return v; }".to_string(),
      ],
    );
    exports.insert("./extra".to_string(), "./extra.ts".to_string());
  }
  // an entrypoint written in JavaScript: untyped (the whole package then
  // carries diagnostics) or typed through a self-types pragma
  match tape.draw(Stream::World, 12) {
    10 => {
      files.insert(
        "/legacy.js".into(),
        vec!["export function legacy(a) { return a; }".to_string()],
      );
      exports.insert("./legacy".to_string(), "./legacy.js".to_string());
    }
    11 => {
      files.insert(
        "/legacy.js".into(),
        vec![
          "/* @ts-self-types=\"./legacy.d.ts\" */".to_string(),
          "export function legacy(a) { return a; }".to_string(),
        ],
      );
      files.insert(
        "/legacy.d.ts".into(),
        vec!["export declare function legacy(a: number): number;".to_string()],
      );
      exports.insert("./legacy".to_string(), "./legacy.js".to_string());
    }
    _ => {}
  }
  PkgSrc {
    name: name.to_string(),
    version: "1.0.0".to_string(),
    files,
    exports,
    member: false,
    root_imports_extra: true,
    extra_versions: vec![],
    pin: None,
  }
}

fn lang_of(path: &str) -> Lang {
  if path.ends_with(".d.ts") {
    Lang::Dts
  } else if path.ends_with(".js") {
    Lang::Js
  } else {
    Lang::Ts
  }
}

fn world_of(pkgs: &[PkgSrc], with_extra_import: bool) -> World {
  let mut w = World::default();
  for p in pkgs.iter().filter(|p| !p.member) {
    let mut files = BTreeMap::new();
    for (path, lines) in &p.files {
      let mut d = ModuleDesc::new("", lang_of(path));
      d.body = Some(lines.join("\n"));
      files.insert(path.clone(), d);
    }
    let pv = PkgVersion {
      yanked: false,
      created_at: None,
      exports: Exports::Map(p.exports.clone()),
      files,
      embed: Embed::None,
      manifest_omit: Default::default(),
      manifest_bad_prefix: Default::default(),
      lockfile_checksum: None,
      manifest_missing: false,
    };
    let mut pkg = Package::default();
    for v in &p.extra_versions {
      pkg.versions.insert(v.clone(), pv.clone());
    }
    pkg.versions.insert(p.version.clone(), pv);
    w.registry.packages.insert(p.name.clone(), pkg);
  }
  w.render_registry(&crate::checks::worlds::embed_info);
  let mut main = ModuleDesc::new(format!("{}main.ts", H_FILE), Lang::Ts);
  let mut body = String::new();
  for p in pkgs.iter().filter(|p| p.pin == Some(true)) {
    // first, so that the old version is selected before the other package's
    // requirement is resolved (and unified with it)
    body.push_str(&format!("import * as pin from \"jsr:{}@1\";\n", p.name));
  }
  for (i, p) in pkgs.iter().enumerate().filter(|(_, p)| !p.member && p.pin.is_none()) {
    if i == 0 || with_extra_import {
      body.push_str(&format!("import * as p{} from \"jsr:{}@1\";\n", i, p.name));
    }
    if i == 0 && p.exports.contains_key("./extra") && p.root_imports_extra {
      body.push_str(&format!("import {{ extra }} from \"jsr:{}@1/extra\";\n", p.name));
    }
    if i == 0 && p.exports.contains_key("./legacy") {
      body.push_str(&format!("import {{ legacy }} from \"jsr:{}@1/legacy\";\n", p.name));
    }
  }
  body.push_str("export const main = 1;\n");
  main.body = Some(body);
  w.add_desc(main);
  w.roots.push(format!("{}main.ts", H_FILE));
  // the workspace member: local files, every export a root
  for p in pkgs.iter().filter(|p| p.member) {
    for (path, lines) in &p.files {
      let mut d = ModuleDesc::new(
        format!("{}{}", MEMBER_BASE, path.trim_start_matches('/')),
        lang_of(path),
      );
      d.body = Some(lines.join("\n"));
      w.add_desc(d);
    }
    for e in p.exports.values() {
      w.roots.push(format!("{}{}", MEMBER_BASE, e.trim_start_matches("./")));
    }
  }
  w
}

fn members_of(pkgs: &[PkgSrc], versioned: bool) -> Vec<deno_graph::WorkspaceMember> {
  pkgs
    .iter()
    .filter(|p| p.member)
    .map(|p| deno_graph::WorkspaceMember {
      base: deno_graph::ModuleSpecifier::parse(MEMBER_BASE).unwrap(),
      name: p.name.as_str().into(),
      version: if versioned {
        Some(deno_semver::Version::parse_standard(&p.version).unwrap())
      } else {
        None
      },
      exports: p.exports.iter().map(|(k, v)| (k.clone(), v.clone())).collect(),
    })
    .collect()
}

fn apply_edit(tape: &mut Tape, pkgs: &mut Vec<PkgSrc>) -> String {
  let pi = tape.draw(Stream::World, pkgs.len() as u32) as usize;
  let kind = tape.draw(Stream::World, 8);
  let p = &mut pkgs[pi];
  let n = tape.draw(Stream::World, 1000);
  match kind {
    0 => {
      // body only: a private function's body
      let m = p.files.get_mut("/mod.ts").unwrap();
      if let Some(l) = m.iter_mut().find(|l| l.starts_with("function hidden")) {
        *l = format!("function hidden(): number {{ return helper({}); }}", n);
      }
      format!("{}: body of a private function", p.name)
    }
    1 => {
      let m = p.files.get_mut("/util.ts").unwrap();
      if let Some(l) = m.iter_mut().find(|l| l.starts_with("export function u0")) {
        *l = format!(
          "export function u0(v: T0, extra{}?: string): T0 {{ return v; }}",
          n
        );
      }
      format!("{}: signature of an exported function", p.name)
    }
    2 => {
      p.files
        .get_mut("/mod.ts")
        .unwrap()
        .push(format!("export const added{}: number = {};", n, n));
      format!("{}: add an export", p.name)
    }
    3 => {
      let m = p.files.get_mut("/mod.ts").unwrap();
      if !m.iter().any(|l| l.starts_with("export function bad")) {
        m.push("export function bad(n: number) { return hidden() + n; }".to_string());
      }
      format!("{}: introduce a non-inferable export", p.name)
    }
    4 => {
      for f in p.files.values_mut() {
        f.retain(|l| {
          !l.starts_with("export function bad") && !l.starts_with("export function ubad")
        });
      }
      format!("{}: remove non-inferable exports", p.name)
    }
    7 => {
      // the package stops using (and re-exporting) the package it depended
      // on; another package or the workspace member may still depend on it
      let mut n_removed = 0;
      for f in p.files.values_mut() {
        let before = f.len();
        f.retain(|l| {
          !(l.contains("from \"jsr:")
            || l.starts_with("export type Wrapped")
            || l.starts_with("import type { Wrapped }")
            || l.starts_with("export function wrap(")
            || l.starts_with("export function viaExtra("))
        });
        n_removed += before - f.len();
      }
      if n_removed == 0 {
        let m = p.files.get_mut("/mod.ts").unwrap();
        if let Some(l) = m.iter_mut().find(|l| l.starts_with("function hidden")) {
          *l = format!("function hidden(): number {{ return helper({}); }}", n);
        }
        format!("{}: body of a private function", p.name)
      } else {
        format!("{}: drop the dependency on the other package", p.name)
      }
    }
    5 => {
      let m = p.files.get_mut("/priv.ts").unwrap();
      m[0] = format!(
        "export function helper(n: number): number {{ return n + {}; }}",
        n
      );
      format!("{}: edit a private module", p.name)
    }
    _ => {
      let m = p.files.get_mut("/types.ts").unwrap();
      m[0] = format!("export type T0 = string | number | {};", n % 7);
      format!("{}: edit a type used by the public API", p.name)
    }
  }
}

struct StepOut {
  label: String,
  with_cache: Snapshot,
  no_cache: Snapshot,
  exports: BTreeMap<String, (String, Vec<String>, Vec<String>)>, // nv -> (base url, entrypoint urls, modules holding their public API)
  cache_hits: u64,
  re_analysis: Vec<(String, Vec<String>, Vec<String>)>,
}

fn fast_check(
  graph: &ModuleGraph,
  analyzer: &CapturingModuleAnalyzer,
  cache: Option<&SimFcCache>,
  members: &[deno_graph::WorkspaceMember],
  dts: bool,
) -> ModuleGraph {
  let mut g = graph.clone();
  let parser = analyzer.as_capturing_parser();
  g.build_fast_check_type_graph(BuildFastCheckTypeGraphOptions {
    fast_check_cache: cache.map(|c| c as &dyn FastCheckCache),
    fast_check_dts: dts && cache.is_none(),
    jsr_url_provider: Default::default(),
    es_parser: Some(&parser),
    resolver: None,
    workspace_fast_check: if members.is_empty() {
      deno_graph::WorkspaceFastCheckOption::Disabled
    } else {
      deno_graph::WorkspaceFastCheckOption::Enabled(members)
    },
  });
  g
}

fn build_graph(
  world: &World,
  sched: &SchedOpts,
  tape: Tape,
) -> (Option<(ModuleGraph, CapturingModuleAnalyzer)>, Tape) {
  let world = Rc::new(world.clone());
  let sem = SemOpts::default();
  let mut session = Session::new(&world, &sem);
  let analyzer = CapturingModuleAnalyzer::default();
  let (report, tape) = run_op_with(
    &mut session,
    &world,
    &Rc::new(FaultPlan::default()),
    &sem,
    sched,
    Operation::Build {
      roots: world.roots.clone(),
      imports: vec![],
    },
    tape,
    false,
    Some(&analyzer),
  );
  if report.end != RunEnd::Done {
    return (None, tape);
  }
  (Some((session.graph, analyzer)), tape)
}

pub fn run_case(tape: &mut Tape, _tier: Tier, _p: &CaseParams) -> CaseOutcome {
  let mut out = CaseOutcome::default();
  let two = tape.draw(Stream::World, 2) == 1;
  let mut barrel = false;
  let mut pkgs = vec![];
  if two {
    pkgs.push(gen_pkg(tape, "@a/b", Some("@c/d")));
    let mut dep = gen_pkg(tape, "@c/d", None);
    dep
      .files
      .get_mut("/mod.ts")
      .unwrap()
      .push("export type X = { tag: \"x\"; v: number };".to_string());
    // the first package may re-export the whole second one (the one
    // construct that makes the public-API trace cross into another package)
    // and use a second entrypoint of it privately
    if tape.draw(Stream::World, 3) == 2 {
      let has_extra = dep.exports.contains_key("./extra");
      let m = pkgs[0].files.get_mut("/mod.ts").unwrap();
      m.insert(0, "export * from \"jsr:@c/d@1\";".to_string());
      if has_extra {
        m.insert(1, "import { extra as depExtra } from \"jsr:@c/d@1/extra\";".to_string());
        m.push("export function viaExtra(): number { return depExtra(1) === 1 ? 1 : 0; }".to_string());
      }
    }
    if tape.draw(Stream::World, 2) == 1 {
      dep
        .files
        .get_mut("/mod.ts")
        .unwrap()
        .push("export default function dflt(): boolean { return true; }".to_string());
    }
    // a barrel: a non-entry module of the first package re-exports the whole
    // second package and the entrypoint names one of its types through the
    // barrel (a named-subset trace that crosses into the other package)
    if tape.draw(Stream::World, 3) == 2 {
      pkgs[0]
        .files
        .insert("/barrel.ts".into(), vec!["export * from \"jsr:@c/d@1\";".to_string()]);
      let m = pkgs[0].files.get_mut("/mod.ts").unwrap();
      m.insert(0, "import type { X as BX } from \"./barrel.ts\";".to_string());
      m.push("export function viaBarrel(x: BX): BX { return x; }".to_string());
      // sometimes the barrel is the only way the first package reaches the
      // second one
      if tape.draw(Stream::World, 2) == 1 {
        for f in pkgs[0].files.values_mut() {
          f.retain(|l| {
            !((l.contains("from \"jsr:") && !l.starts_with("export * from"))
              || l.starts_with("export type Wrapped")
              || l.starts_with("import type { Wrapped }")
              || l.starts_with("export function wrap(")
              || l.starts_with("export function viaExtra("))
          });
        }
        let m = pkgs[0].files.get_mut("/mod.ts").unwrap();
        m.retain(|l| !l.starts_with("export * from \"jsr:"));
      }
      barrel = true;
    }
    // the dependency package has a newer version too, and a helper package
    // privately imports the old one: when the root starts importing the
    // helper, the first package's requirement unifies onto the old version
    // while its cache entry still names the newer one
    let multi = tape.draw(Stream::World, 3) == 2;
    if multi {
      dep.extra_versions.push("1.1.0".to_string());
    }
    pkgs.push(dep);
    if multi {
      let mut pin = gen_pkg(tape, "@e/pin", None);
      let m = pin.files.get_mut("/mod.ts").unwrap();
      m.insert(0, "import * as dpin from \"jsr:@c/d@1.0.0\";".to_string());
      m.push("function usePin(): unknown { return dpin; }".to_string());
      pin.pin = Some(false);
      pin.exports.retain(|k, _| k == ".");
      pkgs.push(pin);
    }
  } else {
    pkgs.push(gen_pkg(tape, "@a/b", None));
  }
  // a workspace member analysed together with the registry packages (one case
  // in three): local files, every export a root of the build, its dependency
  // the last registry package
  let with_member = tape.draw(Stream::World, 3) == 2;
  let member_versioned = tape.draw(Stream::World, 2) == 0;
  let use_dts = tape.draw(Stream::World, 4) == 3;
  if with_member {
    let dep_name = if two { "@c/d".to_string() } else { "@a/b".to_string() };
    if !two {
      pkgs[0]
        .files
        .get_mut("/mod.ts")
        .unwrap()
        .push("export type X = { tag: \"x\"; v: number };".to_string());
    }
    let mut m = gen_pkg(tape, "@ws/m", Some(&dep_name));
    m.member = true;
    // a local package has no second JavaScript entrypoint variant with a
    // registry import; keep what gen_pkg drew
    pkgs.push(m);
  }
  let extra_import = tape.draw(Stream::World, 2) == 1;
  let len = tape.range(Stream::World, 2, 4);
  let lossy = tape.draw(Stream::Faults, 3) == 2;
  let salt = tape.draw(Stream::Faults, u32::MAX) as u64;
  // pre-generate the worlds and schedules of the history
  let mut extra_import = extra_import;
  let mut worlds = vec![world_of(&pkgs, extra_import)];
  let mut labels = vec!["initial".to_string()];
  for _ in 1..len {
    // an edit of the (non-package) root: whether it imports the dependency
    // package directly or only reaches it through the first package
    let l = if two && tape.draw(Stream::World, 5) == 4 {
      extra_import = !extra_import;
      format!("root: direct import of @c/d {}", if extra_import { "added" } else { "removed" })
    } else if pkgs.iter().any(|p| p.pin.is_some()) && tape.draw(Stream::World, 3) == 2 {
      let p = pkgs.iter_mut().find(|p| p.pin.is_some()).unwrap();
      p.pin = Some(p.pin != Some(true));
      format!(
        "root: import of the helper package that pins @c/d@1.0.0 {}",
        if p.pin == Some(true) { "added" } else { "removed" }
      )
    } else if pkgs[0].exports.contains_key("./extra") && tape.draw(Stream::World, 6) == 5 {
      // the set of used exports (= entrypoints = cache key) changes
      pkgs[0].root_imports_extra = !pkgs[0].root_imports_extra;
      format!(
        "root: import of the ./extra export of {} {}",
        pkgs[0].name,
        if pkgs[0].root_imports_extra { "added" } else { "removed" }
      )
    } else {
      apply_edit(tape, &mut pkgs)
    };
    worlds.push(world_of(&pkgs, extra_import));
    labels.push(l);
  }
  let scheds: Vec<SchedOpts> = (0..len * 2).map(|_| SchedOpts::draw(tape)).collect();
  let h1 = tape.draw(Stream::Hash, u32::MAX) as u64;
  let h2 = h1 ^ 0x9E37_79B9 ^ (tape.draw(Stream::Hash, u32::MAX) as u64 + 1);
  let t0 = std::mem::replace(tape, Tape::replay(Default::default()));
  let worlds_c = worlds.clone();
  let labels_c = labels.clone();
  let scheds_c = scheds.clone();
  let members = members_of(&pkgs, member_versioned);
  let members_c = members.clone();
  let res = with_hash_seed(h1, false, move || {
    let members = members_c;
    let mut tape = t0;
    let cache = SimFcCache {
      map: Default::default(),
      salt,
      lossy,
      gets: Default::default(),
      hits: Default::default(),
      sets: Default::default(),
      lost_sets: Default::default(),
      evictions: Default::default(),
    };
    let mut steps = vec![];
    for (i, w) in worlds_c.iter().enumerate() {
      let (built, t) = build_graph(w, &scheds_c[i], tape);
      tape = t;
      let Some((graph, analyzer)) = built else {
        return (None, tape, (0, 0, 0));
      };
      let hits_before = *cache.hits.borrow();
      let g_c = fast_check(&graph, &analyzer, Some(&cache), &members, use_dts);
      let g_n = fast_check(&graph, &analyzer, None, &members, use_dts);
      let mut exports = BTreeMap::new();
      // the public API of a JavaScript entrypoint that names a types
      // dependency lives in that declaration file
      let api_module = |url: String| -> String {
        if let Ok(u) = deno_graph::ModuleSpecifier::parse(&url) {
          if let Some(Module::Js(js)) = graph.get(&u) {
            if !js.media_type.is_typed() {
              if let Some(t) = js
                .maybe_types_dependency
                .as_ref()
                .and_then(|t| t.dependency.maybe_specifier())
              {
                return graph.resolve(t).to_string();
              }
            }
          }
        }
        url
      };
      for m in &members {
        exports.insert(
          m.as_nv().to_string(),
          (
            m.base.to_string(),
            m.exports
              .values()
              .map(|p| format!("{}{}", m.base, p.strip_prefix("./").unwrap_or(p)))
              .collect::<Vec<String>>(),
            m.exports
              .values()
              .map(|p| api_module(format!("{}{}", m.base, p.strip_prefix("./").unwrap_or(p))))
              .collect::<Vec<String>>(),
          ),
        );
      }
      for (nv, _) in graph.packages.packages_with_deps() {
        let base = format!("{}{}/{}/", REGISTRY, nv.name, nv.version);
        let eps: Vec<String> = graph
          .packages
          .package_exports(nv)
          .map(|e| {
            e.values()
              .map(|p| format!("{}{}", base, p.strip_prefix("./").unwrap_or(p)))
              .collect()
          })
          .unwrap_or_default();
        let api = eps.iter().cloned().map(&api_module).collect();
        exports.insert(nv.to_string(), (base, eps, api));
      }
      // recorded dependencies vs the emitted text re-analysed
      let mut re = vec![];
      let pa = deno_graph::ast::ParserModuleAnalyzer::default();
      for (url, slot) in snapshot(&g_n) {
        if let FcSlot::Module { source, deps, .. } = slot {
          if let Ok(u) = deno_graph::ModuleSpecifier::parse(&url) {
            if let Ok(info) = pa.analyze_sync(
              &u,
              source.as_str().into(),
              deno_media_type::MediaType::TypeScript,
            ) {
              let mut declared: Vec<String> = info
                .dependencies
                .iter()
                .filter_map(|d| match d {
                  deno_graph::analysis::DependencyDescriptor::Static(s) => {
                    Some(s.specifier.clone())
                  }
                  deno_graph::analysis::DependencyDescriptor::Dynamic(_) => None,
                })
                .collect();
              declared.sort();
              declared.dedup();
              let mut recorded: Vec<String> =
                deps.iter().map(|d| d.0.clone()).collect();
              recorded.sort();
              re.push((url, recorded, declared));
            }
          }
        }
      }
      steps.push(StepOut {
        label: labels_c[i].clone(),
        with_cache: snapshot(&g_c),
        no_cache: snapshot(&g_n),
        exports,
        cache_hits: *cache.hits.borrow() - hits_before,
        re_analysis: re,
      });
    }
    let stats = (
      *cache.lost_sets.borrow(),
      *cache.evictions.borrow(),
      *cache.hits.borrow(),
    );
    (Some(steps), tape, stats)
  });
  let (steps, t1, stats) = match res {
    Ok(x) => x,
    Err(p) => {
      out.harness_error = Some(format!(
        "history thread panicked: {}",
        crate::exec::panic_message(&p)
      ));
      return out;
    }
  };
  *tape = t1;
  let Some(steps) = steps else {
    out.count("abnormal_end", 1);
    return out;
  };
  out.count("fault.cache_lost_set", stats.0);
  out.count("fault.cache_eviction", stats.1);
  out.count("probe.cache_hit", stats.2);
  if with_member {
    out.count("probe.workspace_member_analysed", 1);
  }
  if barrel {
    out.count("probe.cross_package_barrel", 1);
  }
  if use_dts {
    out.count("probe.declaration_files_compared_across_hash_seeds", 1);
  }
  out.count("builds", steps.len() as u64);
  out.count("fast_checks", steps.len() as u64 * 3);
  // the second cache-less run under another hash seed
  let worlds_c = worlds.clone();
  let scheds_c = scheds.clone();
  let members_c = members.clone();
  let res2 = with_hash_seed(h2, false, move || {
    let members = members_c;
    let mut tape = Tape::replay(Default::default());
    let mut snaps = vec![];
    for (i, w) in worlds_c.iter().enumerate() {
      let (built, t) =
        build_graph(w, &scheds_c[(worlds_c.len() + i) % scheds_c.len()], tape);
      tape = t;
      let Some((graph, analyzer)) = built else {
        return None;
      };
      snaps.push(snapshot(&fast_check(&graph, &analyzer, None, &members, use_dts)));
    }
    Some(snaps)
  });
  let second = match res2 {
    Ok(Some(s)) => s,
    Ok(None) => {
      out.count("abnormal_end", 1);
      return out;
    }
    Err(p) => {
      out.harness_error = Some(format!(
        "second thread panicked: {}",
        crate::exec::panic_message(&p)
      ));
      return out;
    }
  };
  let ctx = |i: usize, extra: Value| {
    json!({"step": i, "edit": labels[i], "history": labels, "lossy_cache": lossy, "what": extra,
      "world": worlds[i].to_json()})
  };
  let emitted = |s: &Snapshot| -> BTreeMap<String, FcSlot> {
    // the declaration-file rendering exists only in the cache-less runs (a
    // cache cannot be combined with it) and is compared between those
    s.iter()
      .filter_map(|(k, v)| match v {
        FcSlot::Module { source, source_map, deps, .. } => Some((
          k.clone(),
          FcSlot::Module {
            source: source.clone(),
            source_map: source_map.clone(),
            deps: deps.clone(),
            dts: None,
          },
        )),
        FcSlot::Error(_) => None,
      })
      .collect()
  };
  for (i, st) in steps.iter().enumerate() {
    // determinism
    if st.no_cache != second[i] {
      let k = st
        .no_cache
        .keys()
        .chain(second[i].keys())
        .find(|k| st.no_cache.get(*k) != second[i].get(*k))
        .cloned()
        .unwrap_or_default();
      out.violation(
        "C12",
        "repeated-runs-identical",
        "fast-check-not-deterministic",
        format!(
          "two cache-less fast checks of the same sources (different hash seeds) differ for {}: {} vs {}",
          k,
          truncate(&format!("{:?}", st.no_cache.get(&k)), 200),
          truncate(&format!("{:?}", second[i].get(&k)), 200)
        ),
        ctx(i, json!({"module": k})),
      );
      return out;
    }
    // cache transparency
    let ec = emitted(&st.with_cache);
    let en = emitted(&st.no_cache);
    if ec != en {
      let k = ec
        .keys()
        .chain(en.keys())
        .find(|k| ec.get(*k) != en.get(*k))
        .cloned()
        .unwrap_or_default();
      let class = match (ec.get(&k), en.get(&k)) {
        (Some(_), None) => "emitted-only-with-cache",
        (None, Some(_)) => "emitted-only-without-cache",
        _ => "emitted-output-differs",
      };
      let state = if st.cache_hits > 0 { "warm" } else { "cold-or-stale" };
      // the package edited in this step was cached with diagnostics: such an
      // entry holds the source hashes of the modules up to the first
      // diagnostic only (listed finding)
      let edited_pkg = st.label.split(':').next().unwrap_or("").to_string();
      let prev_had_diag = i > 0
        && edited_pkg.starts_with('@')
        && steps[i - 1].no_cache.iter().any(|(k, v)| {
          matches!(v, FcSlot::Error(_)) && k.contains(&format!("/{}/", edited_pkg))
        });
      out.violation(
        "C12",
        "cache-transparent",
        format!(
          "cache-changes-output:{}:{}{}",
          class,
          state,
          if prev_had_diag { ":edited-package-was-cached-with-diagnostics" } else { "" }
        ),
        format!(
          "step {} ({}): with the cache ({}) {} has {} but without it {}",
          i,
          st.label,
          state,
          k,
          truncate(&format!("{:?}", ec.get(&k)), 160),
          truncate(&format!("{:?}", en.get(&k)), 160)
        ),
        ctx(i, json!({"module": k})),
      );
      return out;
    }
    // all-or-nothing per package, in both states
    for (state, snap) in [("no-cache", &st.no_cache), ("with-cache", &st.with_cache)] {
      for (nv, (base, eps, api)) in &st.exports {
        let mods: Vec<(&String, &FcSlot)> =
          snap.iter().filter(|(k, _)| k.starts_with(base.as_str())).collect();
        if mods.is_empty() {
          continue; // not analysed
        }
        let n_emit = mods.iter().filter(|(_, s)| matches!(s, FcSlot::Module { .. })).count();
        let n_err = mods.len() - n_emit;
        let bad = if n_err > 0 {
          if n_emit > 0 {
            Some("emitted-and-diagnostics-mixed")
          } else if eps.iter().any(|e| !matches!(snap.get(e), Some(FcSlot::Error(_)))) {
            Some("entrypoint-without-diagnostics")
          } else {
            None
          }
        } else if api.iter().any(|e| !matches!(snap.get(e), Some(FcSlot::Module { .. }))) {
          Some("entrypoint-without-output")
        } else {
          None
        };
        if let Some(b) = bad {
          out.violation(
            "C12",
            "all-or-nothing-per-package",
            format!("all-or-nothing:{}:{}", b, state),
            format!(
              "step {} ({}), {}: package {} has {} emitted and {} diagnostic modules; entrypoints {:?}: {:?}",
              i,
              st.label,
              state,
              nv,
              n_emit,
              n_err,
              eps,
              eps.iter().map(|e| match snap.get(e) { Some(FcSlot::Module{..}) => "emitted", Some(FcSlot::Error(_)) => "diagnostics", None => "nothing" }).collect::<Vec<_>>()
            ),
            ctx(i, json!({"package": nv})),
          );
          return out;
        }
        out.count(
          if n_err > 0 {
            "probe.package_with_diagnostics"
          } else {
            "probe.package_emitted"
          },
          1,
        );
      }
    }
    // recorded dependencies are those the emitted text declares
    for (url, recorded, declared) in &st.re_analysis {
      if recorded != declared {
        out.violation(
          "C12",
          "recorded-dependencies-match-emitted-text",
          "fast-check-dependencies-differ-from-emitted-text",
          format!(
            "{}: recorded fast-check dependencies {:?}, the emitted text declares {:?}",
            url, recorded, declared
          ),
          ctx(i, json!({"module": url})),
        );
        return out;
      }
    }
  }
  let warm = steps.iter().any(|s| s.cache_hits > 0);
  let stale = steps.len() >= 2;
  if warm || stale {
    out.nontrivial_key = Some(crate::rng::hash_str(
      17,
      &format!("{:?}{:?}", labels, worlds[0].remote.keys().collect::<BTreeSet<_>>()),
    ) ^ crate::checks::common::world_hash(&worlds[0]));
  }
  out.sample = Some(json!({
    "history": labels,
    "packages": pkgs.iter().map(|p| p.name.clone()).collect::<Vec<_>>(),
    "lossy_cache": lossy,
    "workspace_member": with_member,
    "emitted_modules_last_step": steps.last().map(|s| emitted(&s.no_cache).len()),
  }));
  out
}
