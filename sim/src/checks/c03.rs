//! C03 — builds terminate with every reachable specifier settled under any
//! faults. Fault enumeration: a fault of every applicable kind at every
//! request the fault-free build issues, plus sampled multi-fault and
//! second-order plans.

use std::collections::BTreeMap;
use std::collections::BTreeSet;

use serde_json::Value;
use serde_json::json;

use crate::checks::c04::end_class;
use crate::checks::c04::truncate;
use crate::checks::common::*;
use crate::checks::worlds::RegGenCfg;
use crate::checks::worlds::gen_registry_world;
use crate::exec::RunEnd;
use crate::framework::CaseOutcome;
use crate::framework::CaseParams;
use crate::framework::CheckSpec;
use crate::framework::Tier;
use crate::run::SchedOpts;
use crate::run::SemOpts;
use crate::seams::LoadRecord;
use crate::shape::Shape;
use crate::shape::SlotShape;
use crate::shape::shape_of;
use crate::tape::Stream;
use crate::tape::Tape;
use crate::tape::Tapes;
use crate::world::*;

pub fn spec() -> CheckSpec {
  CheckSpec {
    id: "C03",
    level: "fault_enumeration",
    rule: "case = small generated base world (plain or registry) x build options. Systematic cases run the first-order sweep: the fault-free build under the baseline schedule records every request identity (url, cache setting, n-th, load|ensure_cached); then one run per (request x applicable fault kind) under the baseline schedule and one under a drawn schedule+hash seed. Seeded cases draw 1-3 faults over the recorded requests plus an optional second-order fault on a request that only appeared because of the first. Oracles: no panic, termination within the step bound, no unfinished/INTERNAL ERROR entry, every module request accounted for by a slot or redirect, serialisation Ok, hard failures become error entries for the affected specifier with a referrer that imports it, successful cache-busting retry equals the fault-free graph, locality of everything not depending on the fault. distinct+non-trivial = distinct (world hash, fault plan) pairs in which a fault actually fired",
    assumptions: vec![
      "faults are response faults: every request is eventually answered (a loader that never answers hangs deno_graph by design; not a listed property)",
      "embedder contracts are not violated (npm resolver returns one result per requirement; executor runs what it is given)",
      "locality is asserted only for specifiers none of whose importers (transitively) is affected by the fault, and not for redirect targets introduced by the fault; jsr specifiers are exempt when the fault changed a package's selected versions",
    ],
    real_components: "deno_graph builder/jsr store/packages/rt/serialisation, deno_ast+swc, futures, deno_unsync, deno_media_type decoding",
    stub_components: "Loader (two-tier world + fault plan), Executor, Locker, NpmResolver, Resolver, FileSystem, Reporter",
    quick_cases: 800,
    thorough_cases: 12000,
    run_case,
    systematic: |t| match t {
      Tier::Quick => 240,
      Tier::Thorough => 4000,
    },
  }
}

const N_KINDS: u32 = 17;

fn is_metadata_url(u: &str) -> bool {
  u.starts_with(REGISTRY) && u.ends_with("meta.json")
}

/// Build the fault for (kind, request). None when not applicable.
fn make_fault(
  kind: u32,
  req: &LoadRecord,
  param: u32,
  world: &World,
) -> Option<Vec<(ReqId, Fault)>> {
  let id = req.id.clone();
  let is_module = req.answer == "module";
  let others: Vec<&String> = world
    .remote
    .keys()
    .filter(|u| **u != id.url && !is_metadata_url(u))
    .collect();
  let pick_other = || -> Option<String> {
    if others.is_empty() {
      None
    } else {
      Some(others[param as usize % others.len()].clone())
    }
  };
  let one = |f: Fault| Some(vec![(id.clone(), f)]);
  match kind {
    0 => one(Fault::NotFound),
    1 => one(Fault::Error),
    2 => {
      if is_module {
        one(Fault::ChecksumIntegrity)
      } else {
        None
      }
    }
    3 => pick_other().and_then(|t| one(Fault::RedirectTo(t))),
    4 => one(Fault::RedirectTo(id.url.clone())),
    5 => {
      // two-cycle: u -> loop, loop -> u
      let lp = format!("{}__loop", id.url);
      Some(vec![
        (id.clone(), Fault::RedirectTo(lp.clone())),
        (
          ReqId {
            url: lp,
            cs: CS_USE,
            nth: 0,
            ensure: id.ensure,
          },
          Fault::RedirectTo(id.url.clone()),
        ),
      ])
    }
    6 => {
      // into the registry / out of a package
      let reg: Vec<&String> = world
        .remote
        .keys()
        .filter(|u| u.starts_with(REGISTRY) && !is_metadata_url(u))
        .collect();
      if id.url.starts_with(REGISTRY) {
        one(Fault::RedirectTo(format!("{}outside.ts", H_A)))
      } else if !reg.is_empty() {
        one(Fault::RedirectTo(reg[param as usize % reg.len()].clone()))
      } else {
        None
      }
    }
    7 => one(Fault::External),
    8 => {
      if is_module {
        pick_other().and_then(|t| one(Fault::FinalUrl(t)))
      } else {
        None
      }
    }
    9 if is_module => one(Fault::Truncate(param)),
    10 if is_module => one(Fault::BitFlip(param)),
    11 if is_module => one(Fault::Garbage(param)),
    12 if is_module && !is_metadata_url(&id.url) => one(Fault::BadCharset),
    13 if is_module && !is_metadata_url(&id.url) => one(Fault::Unparsable),
    14 if is_module && is_metadata_url(&id.url) => one(Fault::WrongShape),
    15 if is_module && is_metadata_url(&id.url) => one(Fault::MalformedJson),
    16 if is_module => one(Fault::Truncate(param % 4)),
    _ => None,
  }
}

struct RunData {
  end: RunEnd,
  obs: Value,
  shape: Option<Shape>,
  loads: Vec<LoadRecord>,
  npm_outcomes: Vec<(Vec<String>, Vec<bool>, bool)>,
  summary: ReportSummary,
}

fn do_run(
  world: &World,
  plan: &FaultPlan,
  sem: &SemOpts,
  sched: &SchedOpts,
  tape: Tape,
  hash_seed: u64,
) -> Result<(RunData, Tape), String> {
  let (b, t) = build_fresh(
    world,
    plan,
    sem,
    sched,
    tape,
    hash_seed,
    false,
    |session, report, _| {
      let shape = if report.end == RunEnd::Done {
        Some(shape_of(&session.graph))
      } else {
        None
      };
      (shape, report.loads.clone(), report.npm_outcomes.clone())
    },
  )?;
  Ok((
    RunData {
      end: b.end,
      obs: b.obs,
      shape: b.extra.0,
      loads: b.extra.1,
      npm_outcomes: b.extra.2,
      summary: b.summary,
    },
    t,
  ))
}

/// Oracles 1, 2, 3, 6 (apply to every run, faulted or not).
fn check_settled(
  out: &mut CaseOutcome,
  world: &World,
  sem: &SemOpts,
  run: &RunData,
  ctx: &Value,
) -> bool {
  match &run.end {
    RunEnd::Done => {}
    RunEnd::Panic(msg) => {
      out.violation(
        "C03",
        "no-panic",
        format!("panic:{}", panic_class(msg)),
        format!("build panicked: {}", truncate(msg, 300)),
        ctx.clone(),
      );
      return false;
    }
    e => {
      out.violation(
        "C03",
        "termination",
        format!("liveness:{}", end_class(e)),
        format!("build did not finish: {:?}", e),
        ctx.clone(),
      );
      return false;
    }
  }
  let ser = &run.obs["serialized"];
  if ser.get("SERIALIZE_ERROR").is_some() {
    out.violation(
      "C03",
      "serialisation",
      "serialize-error",
      format!("serialising the graph failed: {}", ser),
      ctx.clone(),
    );
    return false;
  }
  if let Some(mods) = ser.get("modules").and_then(|m| m.as_array()) {
    for m in mods {
      if let Some(e) = m.get("error").and_then(|e| e.as_str()) {
        if e.contains("[INTERNAL ERROR]") {
          out.violation(
            "C03",
            "no-unfinished-entry",
            "internal-error-entry",
            format!(
              "serialised graph has an unfinished entry for {}",
              m.get("specifier").cloned().unwrap_or(Value::Null)
            ),
            ctx.clone(),
          );
          return false;
        }
      }
    }
  }
  let shape = run.shape.as_ref().unwrap();
  // a cache-busting restart rebuilds the graph from scratch: only requests of
  // the last pass are expected to be in it (a pass starts by requesting the
  // roots again)
  let restart_seq = run
    .loads
    .iter()
    .filter(|l| {
      l.id.nth >= 1
        && l.id.cs == CS_USE
        && !l.id.ensure
        && shape.roots.contains(&l.id.url)
    })
    .map(|l| l.seq)
    .max()
    .unwrap_or(0);
  for l in &run.loads {
    if is_metadata_url(&l.id.url) || l.id.cs == CS_ONLY || l.seq < restart_seq {
      continue;
    }
    if !shape.slots.contains_key(&l.id.url)
      && !shape.redirects.contains_key(&l.id.url)
    {
      out.violation(
        "C03",
        "request-accounted-for",
        format!("request-unaccounted:{}", l.answer),
        format!(
          "loader was asked for {} (answered {}) but the graph has neither an entry nor a redirect for it",
          l.id.label(),
          l.answer
        ),
        ctx.clone(),
      );
      return false;
    }
  }
  // no entry is left unfinished: a registry module built from the manifest's
  // embedded module information starts as a placeholder with empty text; it
  // may stay a module only if its content arrived (some request for it was
  // answered with content under its own specifier), otherwise the failed
  // content load has to have turned it into an error entry
  for (u, slot) in &shape.slots {
    let crate::shape::SlotShape::Module(m) = slot else { continue };
    if !(m.kind == "js" || m.kind == "json") || !u.starts_with(REGISTRY) {
      continue;
    }
    if run.obs["modules"][u.as_str()]["source"].as_str() != Some("") {
      continue;
    }
    let content_arrived = run.loads.iter().any(|l| {
      l.id.url == *u
        && l.answer == "module"
        && l.final_url.as_deref() == Some(u.as_str())
    });
    if !content_arrived {
      out.violation(
        "C03",
        "no-unfinished-entry",
        "placeholder-module-never-filled".to_string(),
        format!(
          "{} is a module with empty text although no request for it was answered with its content (requests: {:?})",
          u,
          run
            .loads
            .iter()
            .filter(|l| l.id.url == *u)
            .map(|l| format!("{} -> {}", l.id.label(), l.answer))
            .collect::<Vec<_>>()
        ),
        ctx.clone(),
      );
      return false;
    }
  }
  // every redirect of the graph was made by somebody: the loader (a redirect
  // answer or a response naming another final specifier), the lockfile, or
  // the resolution of a `jsr:` specifier to a file of a package
  for (from, to) in &shape.redirects {
    let by_loader = run.loads.iter().any(|l| {
      l.id.url == *from && l.final_url.as_deref() == Some(to.as_str())
    });
    let by_lockfile = world.lockfile.redirects.get(from) == Some(to);
    // (where exactly the export value of the manifest leads is C07's subject:
    // a value such as "/." legally joins to the registry root)
    let by_registry = from.starts_with("jsr:") && to.starts_with(REGISTRY);
    if !(by_loader || by_lockfile || by_registry) {
      out.violation(
        "C03",
        "failure-stored-under-the-affected-specifier",
        format!(
          "redirect-nobody-made:{}",
          if to.ends_with('/') { "to-package-directory" } else { "other" }
        ),
        format!(
          "the graph redirects {} to {} although neither the loader nor the lockfile nor a jsr resolution said so",
          from, to
        ),
        ctx.clone(),
      );
      return false;
    }
  }
  // a root is requested as what the caller said it is: the loader is told
  // "in a dynamic branch" for it only when the build was started as a
  // dynamic root - in every pass, also the one after a cache-busting restart
  for l in &run.loads {
    // (a root that kept its own entry was only ever requested as a root: an
    // existing or in-flight entry suppresses every other request for it)
    if !l.id.ensure
      && shape.roots.contains(&l.id.url)
      && shape.slots.contains_key(&l.id.url)
      && !shape.redirects.contains_key(&l.id.url)
      && l.in_dynamic_branch != sem.is_dynamic
    {
      out.violation(
        "C03",
        "unaffected-modules-loaded-as-without-the-failure",
        format!(
          "root-requested-with-wrong-dynamic-flag:{}",
          if l.id.nth >= 1 { "after-restart" } else { "first-pass" }
        ),
        format!(
          "root {} was requested with in_dynamic_branch = {} (the build's dynamic-root option is {})",
          l.id.label(),
          l.in_dynamic_branch,
          sem.is_dynamic
        ),
        ctx.clone(),
      );
      return false;
    }
  }
  // every error entry that is not a root (or what a root redirects to)
  // carries the referrer through which it was requested
  // (closure over the graph's redirects and over every redirect the loader
  // answered in this run: the graph keeps only the first redirect of a
  // specifier, a later request of the same root chain may have been led
  // elsewhere)
  let mut root_chain: BTreeSet<String> = BTreeSet::new();
  {
    let mut edges: BTreeMap<&str, Vec<&str>> = BTreeMap::new();
    for (a, b) in &shape.redirects {
      edges.entry(a.as_str()).or_default().push(b.as_str());
    }
    for l in &run.loads {
      if let Some(f) = &l.final_url {
        if *f != l.id.url {
          edges.entry(l.id.url.as_str()).or_default().push(f.as_str());
        }
      }
    }
    let mut work: Vec<&str> = shape.roots.iter().map(|s| s.as_str()).collect();
    while let Some(n) = work.pop() {
      if root_chain.insert(n.to_string()) {
        if let Some(ts) = edges.get(n) {
          work.extend(ts.iter().copied());
        }
      }
    }
  }
  for (k, slot) in &shape.slots {
    if let SlotShape::Err {
      referrer_range,
      variant,
      at,
      ..
    } = slot
    {
      if referrer_range.is_none() && !root_chain.contains(k) && !root_chain.contains(at) {
        out.violation(
          "C03",
          "error-carries-referrer",
          format!("error-without-referrer:{}", variant),
          format!(
            "error entry {} ({}) is not a root, yet carries no referrer",
            k, variant
          ),
          ctx.clone(),
        );
        return false;
      }
    }
  }
  // npm: a requirement that resolves but whose dependency graph resolution
  // fails, requested from a dynamic branch only, becomes an error entry
  for (reqs, oks, dep_ok) in &run.npm_outcomes {
    if reqs.len() != 1 || !oks[0] || *dep_ok {
      continue;
    }
    for (k, slot) in &shape.slots {
      let Some(rest) = k.strip_prefix("npm:") else {
        continue;
      };
      let rest = rest.strip_prefix('/').unwrap_or(rest);
      // name@req[/sub]
      let req = {
        let (scope_skip, body) = match rest.strip_prefix('@') {
          Some(b) => (1, b),
          None => (0, rest),
        };
        let mut parts = body.splitn(2 + scope_skip, '/');
        let mut head = String::new();
        if scope_skip == 1 {
          head.push('@');
          head.push_str(parts.next().unwrap_or(""));
          head.push('/');
        }
        head.push_str(parts.next().unwrap_or(""));
        head
      };
      let same_req = deno_semver::package::PackageReq::from_str(&req)
        .ok()
        .is_some_and(|r| r.to_string() == reqs[0]);
      if !same_req || root_chain.contains(k) {
        continue;
      }
      // every edge into k is dynamic
      let mut edges = 0;
      let mut all_dynamic = true;
      for s2 in shape.slots.values() {
        if let SlotShape::Module(m) = s2 {
          for d in &m.deps {
            if d.code.ok() == Some(k.as_str()) || d.typ.ok() == Some(k.as_str()) {
              edges += 1;
              all_dynamic &= d.is_dynamic;
            }
          }
        }
      }
      // a static importer whose own entry was later replaced by an error no
      // longer shows its edge
      let static_importer_failed = world.descs.values().any(|d| {
        matches!(shape.slots.get(&d.url), Some(SlotShape::Err { .. }))
          && d.items.iter().any(|it| {
            !it.form.is_dynamic() && resolve_text(world, &d.url, &it.spec) == *k
          })
      });
      if edges > 0 && all_dynamic && !static_importer_failed {
        out.count("probe.npm_dynamic_dep_graph_failure", 1);
        if !matches!(slot, SlotShape::Err { .. }) {
          out.violation(
            "C03",
            "fault-becomes-error",
            "npm-dynamic-dep-graph-failure-not-an-error",
            format!(
              "the npm resolver resolved {} but failed its dependency graph when asked for it alone (dynamic import); {} is not an error entry",
              reqs[0], k
            ),
            ctx.clone(),
          );
          return false;
        }
      }
    }
  }
  true
}

fn panic_class(msg: &str) -> String {
  // keep the stable head of the message
  let m: String = msg
    .chars()
    .take(60)
    .map(|c| if c.is_ascii_digit() { '#' } else { c })
    .collect();
  m
}

fn package_of(url: &str) -> Option<String> {
  let rest = url.strip_prefix(REGISTRY)?;
  let mut it = rest.split('/');
  let scope = it.next()?;
  let name = it.next()?;
  Some(format!("{}/{}", scope, name))
}

fn affected_set(
  world: &World,
  base: &Shape,
  plan: &[(ReqId, Fault)],
) -> BTreeSet<String> {
  let mut a = BTreeSet::new();
  let nodes: Vec<&String> =
    base.slots.keys().chain(base.redirects.keys()).collect();
  for (id, f) in plan {
    a.insert(id.url.clone());
    if let Fault::RedirectTo(t) | Fault::FinalUrl(t) = f {
      a.insert(t.clone());
      // and whatever t leads to
      if let Some(x) = base.follow(t) {
        a.insert(x.to_string());
      }
      // the injected target may be a world entry the fault-free build never
      // reached (so the base graph has no redirect for it): follow the
      // world's own redirects from it, every hop is where the faulted
      // request now lands
      let mut cur = t.clone();
      let mut seen = BTreeSet::new();
      while seen.insert(cur.clone()) {
        let cached: BTreeMap<String, Entry> = world.cache.iter().filter_map(|(k, v)| v.clone().map(|e| (k.clone(), e))).collect();
        let next = [&cached, &world.remote].iter().find_map(|tier| {
          match tier.get(&cur) {
            Some(Entry::Redirect(to)) => Some(to.clone()),
            Some(Entry::Module {
              final_url: Some(to),
              ..
            }) => Some(to.clone()),
            _ => None,
          }
        });
        match next {
          Some(n) => {
            a.insert(n.clone());
            if let Some(x) = base.follow(&n) {
              a.insert(x.to_string());
            }
            cur = n;
          }
          None => break,
        }
      }
    }
    if is_metadata_url(&id.url) {
      if let Some(p) = package_of(&id.url) {
        for n in &nodes {
          let is_pkg = n.starts_with(&format!("{}{}/", REGISTRY, p))
            || n.strip_prefix("jsr:").is_some_and(|r| {
              let r = r.strip_prefix('/').unwrap_or(r);
              r == p
                || r.starts_with(&format!("{}@", p))
                || r.starts_with(&format!("{}/", p))
            });
          if is_pkg {
            a.insert((*n).clone());
          }
        }
      }
    }
  }
  a
}

/// Greatest fixpoint: nodes none of whose (transitive) importers is affected.
fn independent_nodes(
  base: &Shape,
  affected: &BTreeSet<String>,
) -> BTreeSet<String> {
  let mut preds: BTreeMap<String, Vec<String>> = BTreeMap::new();
  for (url, slot) in &base.slots {
    if let SlotShape::Module(m) = slot {
      let mut targets: Vec<&str> = vec![];
      for d in &m.deps {
        if let Some(t) = d.code.ok() {
          targets.push(t);
        }
        if let Some(t) = d.typ.ok() {
          targets.push(t);
        }
      }
      if let Some((_, r)) = &m.types_dep {
        if let Some(t) = r.ok() {
          targets.push(t);
        }
      }
      if let Some(r) = &m.source_map_dep {
        if let Some(t) = r.ok() {
          targets.push(t);
        }
      }
      for t in targets {
        preds.entry(t.to_string()).or_default().push(url.clone());
      }
    }
  }
  for (from, to) in &base.redirects {
    preds.entry(to.clone()).or_default().push(from.clone());
  }
  let mut u: BTreeSet<String> = base
    .slots
    .keys()
    .chain(base.redirects.keys())
    .filter(|n| !affected.contains(*n))
    .cloned()
    .collect();
  loop {
    let mut removed = false;
    let snapshot: Vec<String> = u.iter().cloned().collect();
    for n in snapshot {
      if let Some(ps) = preds.get(&n) {
        if ps.iter().any(|p| !u.contains(p)) {
          u.remove(&n);
          removed = true;
        }
      }
    }
    if !removed {
      break;
    }
  }
  // and only what the fault-free graph itself explains: reachable from the
  // roots / configured imports through independent nodes
  let mut succ: BTreeMap<&str, Vec<&str>> = BTreeMap::new();
  for (t, ps) in &preds {
    for p in ps {
      succ.entry(p.as_str()).or_default().push(t.as_str());
    }
  }
  let mut reach: BTreeSet<String> = BTreeSet::new();
  let mut stack: Vec<&str> = base.roots.iter().map(|r| r.as_str()).collect();
  for (_, deps) in &base.imports {
    for d in deps {
      stack.extend(d.code.ok());
      stack.extend(d.typ.ok());
    }
  }
  while let Some(n) = stack.pop() {
    if !u.contains(n) || !reach.insert(n.to_string()) {
      continue;
    }
    if let Some(ss) = succ.get(n) {
      stack.extend(ss.iter().copied());
    }
  }
  reach
}

/// Oracles 4 and 5 for a faulted run.
fn check_faulted(
  out: &mut CaseOutcome,
  world: &World,
  base: &RunData,
  run: &RunData,
  plan: &[(ReqId, Fault)],
  ctx: &Value,
) {
  let bshape = base.shape.as_ref().unwrap();
  let fshape = run.shape.as_ref().unwrap();
  // which faults actually fired
  let fired: Vec<&(ReqId, Fault)> = plan
    .iter()
    .filter(|(id, _)| {
      run.loads.iter().any(|l| l.id == *id && l.fault.is_some())
    })
    .collect();
  if fired.is_empty() {
    return;
  }
  // item 4 (single hard fault only, to keep the expectation exact)
  if plan.len() == 1 {
    let (id, f) = &plan[0];
    let hard = matches!(f, Fault::NotFound | Fault::Error);
    let integrity = matches!(f, Fault::ChecksumIntegrity);
    let retry_ok = integrity
      && run.loads.iter().any(|l| {
        l.id.url == id.url && l.id.cs == CS_RELOAD && l.answer == "module"
      });
    if retry_ok && !id.url.starts_with(REGISTRY) && id.cs == CS_USE {
      // documented masking: equals the fault-free graph
      if let Some((path, a, b)) = crate::observe::first_diff(&base.obs, &run.obs)
      {
        out.violation(
          "C03",
          "retry-masks-fault",
          format!("retry-differs:{}", classify_path(&path)),
          format!(
            "integrity failure on {} was retried successfully but the graph differs from the fault-free one at {}: {} vs {}",
            id.label(),
            path,
            truncate(&a.to_string(), 160),
            truncate(&b.to_string(), 160)
          ),
          ctx.clone(),
        );
        return;
      }
    }
    // a cache-busting restart abandons the pass in which the fault fired:
    // the second pass may select other versions and never ask again
    let restart_seq = run
      .loads
      .iter()
      .filter(|l| {
        l.id.nth >= 1
          && l.id.cs == CS_USE
          && !l.id.ensure
          && fshape.roots.contains(&l.id.url)
      })
      .map(|l| l.seq)
      .max()
      .unwrap_or(0);
    let fired_in_last_pass = run
      .loads
      .iter()
      .any(|l| l.id == *id && l.fault.is_some() && l.seq >= restart_seq);
    if (hard || (integrity && !retry_ok))
      && !is_metadata_url(&id.url)
      && id.cs != CS_ONLY
      && id.nth == 0
      && fired_in_last_pass
    {
      match fshape.slots.get(&id.url) {
        Some(SlotShape::Err { referrer, .. }) => {
          if let Some(r) = referrer {
            // the referrer must lie in a module that imports the specifier
            // (directly or through a redirect source)
            let imports_it = match fshape.slots.get(r) {
              Some(SlotShape::Module(m)) => {
                let mut ts: Vec<&str> = vec![];
                for d in &m.deps {
                  ts.extend(d.code.ok());
                  ts.extend(d.typ.ok());
                }
                if let Some((_, x)) = &m.types_dep {
                  ts.extend(x.ok());
                }
                if let Some(x) = &m.source_map_dep {
                  ts.extend(x.ok());
                }
                ts.iter().any(|t| {
                  *t == id.url
                    || chain_contains(fshape, t, &id.url)
                })
              }
              Some(SlotShape::Err { .. }) => {
                // the referrer's own entry was later replaced by an error
                // (e.g. an unsupported attribute import of it): the graph no
                // longer records what it imported
                out.count("referrer_unverifiable", 1);
                true
              }
              // configured imports, or the default range of a
              // `Resolver::resolve_types` answer, which names the types
              // specifier itself (possibly a redirect source of this entry)
              None => {
                fshape.imports.iter().any(|(referrer, _)| referrer == r)
                  || chain_contains(fshape, r, &id.url)
              }
            };
            if !imports_it {
              out.violation(
                "C03",
                "error-referrer",
                "referrer-not-an-importer",
                format!(
                  "error entry for {} names referrer {} which does not import it",
                  id.url, r
                ),
                ctx.clone(),
              );
              return;
            }
          }
        }
        Some(SlotShape::Module(m)) => {
          // a successful earlier load of the same url under another request
          // identity (e.g. asset then module) can legitimately own the slot
          let other_ok = run.loads.iter().any(|l| {
            l.id != *id
              && (l.id.url == id.url
                || l.final_url.as_deref() == Some(id.url.as_str()))
              && (l.answer == "module" || l.answer == "external")
          });
          if !other_ok {
            out.violation(
              "C03",
              "fault-becomes-error",
              format!("fault-masked:{}:{}", f.kind(), m.kind),
              format!(
                "{} was answered with {} but the graph holds a {} module for it",
                id.label(),
                f.kind(),
                m.kind
              ),
              ctx.clone(),
            );
            return;
          }
        }
        None => {
          if !fshape.redirects.contains_key(&id.url) {
            out.violation(
              "C03",
              "fault-becomes-error",
              format!("fault-no-entry:{}", f.kind()),
              format!(
                "{} was answered with {} but the graph has no entry for it",
                id.label(),
                f.kind()
              ),
              ctx.clone(),
            );
            return;
          }
        }
      }
    }
  }
  // item 5: locality
  let plan_owned: Vec<(ReqId, Fault)> =
    fired.iter().map(|x| (*x).clone()).collect();
  let affected = affected_set(world, bshape, &plan_owned);
  // independent in both graphs: the fault may make new modules reachable
  // (the target of an injected redirect), which then import - and may be the
  // first to visit - modules of the fault-free graph
  let indep_f = independent_nodes(fshape, &affected);
  let indep: BTreeSet<String> = independent_nodes(bshape, &affected)
    .into_iter()
    .filter(|n| {
      indep_f.contains(n)
        || !(fshape.slots.contains_key(n) || fshape.redirects.contains_key(n))
    })
    .collect();
  let mappings_same =
    base.obs["packages"]["mappings"] == run.obs["packages"]["mappings"];
  for n in &indep {
    let is_pkg_node = n.starts_with("jsr:") || n.starts_with(REGISTRY);
    if is_pkg_node && !mappings_same {
      continue;
    }
    if n.starts_with("npm:") {
      // npm entries are settled in one batch whose outcome the contract ties
      // to the whole request list
      continue;
    }
    if let Some(to) = bshape.redirects.get(n) {
      if !bshape.slots.contains_key(n) {
        match fshape.redirects.get(n) {
          Some(t2) if t2 == to => {}
          other => {
            out.violation(
              "C03",
              "locality",
              "redirect-changed",
              format!(
                "redirect {} -> {} does not depend on the fault but became {:?}",
                n, to, other
              ),
              ctx.clone(),
            );
            return;
          }
        }
        continue;
      }
    }
    let bs = &base.obs["slots"][n.as_str()];
    let fs = &run.obs["slots"][n.as_str()];
    let same = match (bshape.slots.get(n), fshape.slots.get(n)) {
      (Some(SlotShape::Module(_)), Some(SlotShape::Module(_))) => {
        base.obs["modules"][n.as_str()] == run.obs["modules"][n.as_str()]
      }
      (
        Some(SlotShape::Err { text: a, .. }),
        Some(SlotShape::Err { text: b, .. }),
      ) => a == b,
      (None, None) => true,
      _ => false,
    };
    if !same {
      let what = match (bshape.slots.get(n), fshape.slots.get(n)) {
        (Some(SlotShape::Module(_)), Some(SlotShape::Module(_))) => {
          let d = crate::observe::first_diff(
            &base.obs["modules"][n.as_str()],
            &run.obs["modules"][n.as_str()],
          );
          format!("module-detail:{}", d.map(|d| classify_path(&d.0)).unwrap_or_default())
        }
        (Some(SlotShape::Module(_)), Some(SlotShape::Err { .. })) => {
          "module-became-error".to_string()
        }
        (Some(SlotShape::Err { .. }), Some(SlotShape::Module(_))) => {
          "error-became-module".to_string()
        }
        (Some(_), None) => "entry-disappeared".to_string(),
        (None, Some(_)) => "entry-appeared".to_string(),
        _ => "error-text-changed".to_string(),
      };
      out.violation(
        "C03",
        "locality",
        format!("locality:{}", what),
        format!(
          "{} does not depend on the faulted request(s) {:?} but its entry changed: fault-free {} vs faulted {}",
          n,
          plan_owned.iter().map(|(i, f)| format!("{}={}", i.label(), f.kind())).collect::<Vec<_>>(),
          truncate(&bs.to_string(), 200),
          truncate(&fs.to_string(), 200)
        ),
        ctx.clone(),
      );
      return;
    }
  }
}

fn chain_contains(shape: &Shape, from: &str, needle: &str) -> bool {
  let mut cur = from.to_string();
  let mut seen = BTreeSet::new();
  while seen.insert(cur.clone()) {
    if cur == needle {
      return true;
    }
    match shape.redirects.get(&cur) {
      Some(n) => cur = n.clone(),
      None => return false,
    }
  }
  false
}

fn small_world(tape: &mut Tape) -> World {
  if tape.draw(Stream::World, 2) == 1 {
    let mut cfg = RegGenCfg::full();
    cfg.max_packages = 2;
    cfg.max_versions = 3;
    let mut w = gen_registry_world(tape, &cfg);
    if tape.draw(Stream::World, 8) == 7 {
      // inconsistent metadata: an export value that cannot be joined onto
      // the package url
      let bad = *tape.pick(Stream::World, &["//", "https://", "http://["]);
      if let Some(pv) = w
        .registry
        .packages
        .values_mut()
        .next()
        .and_then(|p| p.versions.values_mut().next_back())
      {
        pv.exports = Exports::Single(bad.to_string());
      }
      w.render_registry(&crate::checks::worlds::embed_info);
    }
    w
  } else {
    let mut cfg = GenCfg::basic();
    cfg.max_modules = 6;
    cfg.max_items = 4;
    let mut w = gen_world(tape, &cfg);
    if tape.draw(Stream::World, 3) == 2 {
      crate::checks::worlds::add_remote_lockfile(tape, &mut w);
    }
    if tape.draw(Stream::World, 6) == 5 {
      // npm dimension: a dynamically imported package (resolved on its own,
      // so that a dependency-graph failure can be pinned on it), optionally
      // next to a statically imported one; the resolver rejects a package
      // or fails the dependency graph
      let importers: Vec<String> = w
        .descs
        .values()
        .filter(|d| d.lang.is_script() && !d.lang.is_declaration())
        .map(|d| d.url.clone())
        .collect();
      if !importers.is_empty() {
        let imp = importers[tape.draw(Stream::World, importers.len() as u32) as usize].clone();
        let mut d = w.descs.get(&imp).unwrap().clone();
        d.items.push(Item::new(
          Form::Dynamic,
          *tape.pick(Stream::World, &["npm:chalk@5", "npm:chalk@5/sub", "npm:left-pad@1"]),
        ));
        if tape.draw(Stream::World, 2) == 1 {
          d.items
            .push(Item::new(Form::SideEffect, "npm:@types/x@1.0.0/sub"));
        }
        w.add_desc(d);
        refresh_aliases(&mut w);
        w.npm.enabled = tape.draw(Stream::World, 8) != 7;
        w.npm.dep_graph_fails = tape.draw(Stream::World, 2) == 1;
        w.npm.fail.clear();
        if tape.draw(Stream::World, 4) == 3 {
          w.npm.fail.insert("chalk".into());
        }
      }
    }
    w
  }
}

pub fn run_case(tape: &mut Tape, tier: Tier, p: &CaseParams) -> CaseOutcome {
  let mut out = CaseOutcome::default();
  let world = small_world(tape);
  let mut sem = SemOpts::draw(tape);
  sem.with_locker =
    world.lockfile.present || tape.draw(Stream::Options, 3) == 2;
  sem.prefer_cached_jsr = !world.registry.packages.is_empty()
    && tape.draw(Stream::Options, 4) == 3;
  // sometimes the operation under test is a second build on a non-empty
  // graph (no restart allowed there; single-package metadata reload instead)
  let two_step = match p.systematic_index {
    Some(i) => i % 3 == 2,
    None => tape.draw(Stream::Options, 3) == 2,
  };
  if two_step {
    // any earlier root makes the graph non-empty
    sem.prelude_roots =
      vec!["data:text/javascript,export default 1;".to_string()];
  }
  let world_tape = tape.rec.world.clone();
  let options_tape = tape.rec.options.clone();
  // systematic cases sweep; seeded cases draw a plan (mode 0 = fault-free)
  let sweep = p.systematic_index.is_some();
  let sampled = !sweep && tape.draw(Stream::Faults, 2) == 1;
  let base_sched = SchedOpts::default();
  let (base, _) = match do_run(
    &world,
    &FaultPlan::default(),
    &sem,
    &base_sched,
    Tape::replay(Default::default()),
    0,
  ) {
    Ok(x) => x,
    Err(e) => {
      out.harness_error = Some(format!("baseline thread panicked: {}", e));
      return out;
    }
  };
  add_summary(&mut out, &base.summary, &base_sched);
  let wh = world_hash(&world);
  let ctx0 = json!({"plan": [], "sem": sem, "world": world.to_json()});
  if !check_settled(&mut out, &world, &sem, &base, &ctx0) {
    return out;
  }
  let reqs: Vec<LoadRecord> = base.loads.clone();
  out.count("requests_in_base_worlds", reqs.len() as u64);
  out.count("probe.second_build_on_nonempty_graph", two_step as u64);
  out.count(
    "probe.deferred_registry_content_load",
    reqs
      .iter()
      .filter(|r| {
        r.id.cs == CS_USE
          && r.id.url.starts_with(REGISTRY)
          && !is_metadata_url(&r.id.url)
          && reqs.iter().any(|p| {
            p.id.url == r.id.url && p.id.cs == CS_ONLY && p.seq < r.seq
          })
      })
      .count() as u64,
  );
  if reqs.is_empty() {
    return out;
  }
  let mut nontrivial = vec![];
  let mut run_plan = |out: &mut CaseOutcome,
                      plan: Vec<(ReqId, Fault)>,
                      sched: &SchedOpts,
                      sub: Tape,
                      hash_seed: u64,
                      replay_as: Option<Tapes>|
   -> Option<(RunData, Tape)> {
    let fp = FaultPlan {
      faults: plan.clone(),
    };
    let (run, sub) = match do_run(&world, &fp, &sem, sched, sub, hash_seed) {
      Ok(x) => x,
      Err(e) => {
        out.harness_error = Some(format!("run thread panicked: {}", e));
        return None;
      }
    };
    add_summary(out, &run.summary, sched);
    if !run.summary.faults_fired.is_empty() {
      nontrivial.push(crate::rng::mix(
        wh,
        crate::rng::hash_str(3, &serde_json::to_string(&plan).unwrap()),
      ));
    }
    let ctx = json!({
      "plan": plan.iter().map(|(i, f)| json!({"request": i.label(), "fault": f})).collect::<Vec<_>>(),
      "sched": sched, "hash_seed": hash_seed, "sem": sem,
      "world": world.to_json(),
    });
    let before = out.violations.len();
    if check_settled(out, &world, &sem, &run, &ctx) {
      check_faulted(out, &world, &base, &run, &plan, &ctx);
    }
    if let Some(t) = replay_as {
      for v in &mut out.violations[before..] {
        v.replay_as = Some((CaseParams::default(), t.clone()));
      }
    }
    Some((run, sub))
  };
  if sweep {
    let case_seed = tape.draw(Stream::Faults, u32::MAX) as u64;
    let mut complete = true;
    'outer: for (ri, req) in reqs.iter().enumerate() {
      for ki in 0..N_KINDS {
        let param = (ri as u32).wrapping_mul(31).wrapping_add(ki * 7 + 3) % 65536;
        let Some(plan) = make_fault(ki, req, param, &world) else {
          continue;
        };
        for variant in 0..2 {
          let (sched, sub, hash_seed) = if variant == 0 {
            (
              SchedOpts::default(),
              Tape::replay(Default::default()),
              0u64,
            )
          } else {
            let mut sub = Tape::generate(crate::rng::mix(
              case_seed,
              (ri as u64) << 8 | ki as u64,
            ));
            let s = SchedOpts::draw(&mut sub);
            let h = draw_hash_seed(&mut sub);
            (s, sub, h)
          };
          // the equivalent single-fault case
          let mk_tapes = |sub_rec: &Tapes| Tapes {
            world: world_tape.clone(),
            options: options_tape.clone(),
            faults: vec![1, 0, ri as u32, ki, param, 0],
            schedule: sub_rec.schedule.clone(),
            hash: sub_rec.hash.clone(),
          };
          let before = out.violations.len();
          let res = run_plan(&mut out, plan.clone(), &sched, sub, hash_seed, None);
          let Some((_, sub)) = res else {
            return out;
          };
          if out.violations.len() > before {
            let t = mk_tapes(&sub.rec);
            for v in &mut out.violations[before..] {
              v.replay_as = Some((CaseParams::default(), t.clone()));
            }
            complete = false;
            break 'outer;
          }
        }
      }
    }
    out.count(
      if complete {
        "sweeps_completed"
      } else {
        "sweeps_aborted"
      },
      1,
    );
  } else if sampled {
    // sampled plan from the tape
    let nf = 1 + tape.draw(Stream::Faults, 3);
    let mut plan = vec![];
    for _ in 0..nf {
      let ri = tape.draw(Stream::Faults, reqs.len() as u32) as usize;
      let ki = tape.draw(Stream::Faults, N_KINDS);
      let param = tape.draw(Stream::Faults, 65536);
      if let Some(p) = make_fault(ki, &reqs[ri], param, &world) {
        for e in p {
          if !plan.iter().any(|(i, _): &(ReqId, Fault)| *i == e.0) {
            plan.push(e);
          }
        }
      }
    }
    let second = tape.draw(Stream::Faults, 3) == 2;
    if plan.is_empty() {
      return out;
    }
    let sched = SchedOpts::draw(tape);
    let hash_seed = draw_hash_seed(tape);
    let t0 = std::mem::replace(tape, Tape::replay(Default::default()));
    let Some((run, t1)) = run_plan(&mut out, plan.clone(), &sched, t0, hash_seed, None)
    else {
      return out;
    };
    *tape = t1;
    if second && out.violations.is_empty() && run.end == RunEnd::Done {
      // second-order: a request that only appeared because of the fault
      let base_ids: BTreeSet<&ReqId> = reqs.iter().map(|r| &r.id).collect();
      let newreqs: Vec<&LoadRecord> = run
        .loads
        .iter()
        .filter(|l| !base_ids.contains(&l.id))
        .collect();
      if !newreqs.is_empty() {
        let ri = tape.draw(Stream::Faults, newreqs.len() as u32) as usize;
        let ki = tape.draw(Stream::Faults, N_KINDS);
        let param = tape.draw(Stream::Faults, 65536);
        if let Some(p) = make_fault(ki, newreqs[ri], param, &world) {
          let mut plan2 = plan.clone();
          for e in p {
            if !plan2.iter().any(|(i, _)| *i == e.0) {
              plan2.push(e);
            }
          }
          out.count("second_order_plans", 1);
          let t0 = std::mem::replace(tape, Tape::replay(Default::default()));
          if let Some((_, t1)) =
            run_plan(&mut out, plan2, &sched, t0, hash_seed, None)
          {
            *tape = t1;
          }
        }
      }
    }
  }
  if let Some(k) = nontrivial.first() {
    out.nontrivial_key = Some(*k);
  }
  out.distinct.entry("world_x_faultplan").or_default().extend(nontrivial);
  let _ = tier;
  {
    out.sample = Some(json!({
      "mode": if sweep { "first-order sweep" } else { "sampled plan" },
      "roots": world.roots,
      "requests": reqs.iter().take(12).map(|r| r.id.label()).collect::<Vec<_>>(),
      "sem": sem,
    }));
  }
  out
}
