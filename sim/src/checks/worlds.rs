//! World generators built on `world.rs`: registry worlds and the mixed
//! generator used by most checks.

use std::collections::BTreeMap;
use std::collections::BTreeSet;

use deno_graph::ModuleSpecifier;
use deno_media_type::MediaType;
use serde_json::Value;
use serde_json::json;

use crate::tape::Stream;
use crate::tape::Tape;
use crate::world::*;

pub const VERSION_POOL: [&str; 6] =
  ["0.9.0", "1.0.0", "1.1.0", "1.2.0-pre", "1.2.0", "2.0.0"];
pub const PKG_NAMES: [&str; 4] = ["@a/b", "@a/bc", "@c/d", "@c/e"];
pub const REQ_POOL: [&str; 9] =
  ["", "@*", "@^1", "@~1.1", "@1.0.0", "@>=1.1", "@2", "@^3", "@1"];
pub const T_CUTOFF: i64 = 1_700_000_000;

pub fn media_type_of(lang: Lang) -> MediaType {
  match lang {
    Lang::Ts => MediaType::TypeScript,
    Lang::Mts => MediaType::Mts,
    Lang::Cts => MediaType::Cts,
    Lang::Tsx => MediaType::Tsx,
    Lang::Js => MediaType::JavaScript,
    Lang::Mjs => MediaType::Mjs,
    Lang::Cjs => MediaType::Cjs,
    Lang::Jsx => MediaType::Jsx,
    Lang::Dts => MediaType::Dts,
    Lang::Dmts => MediaType::Dmts,
    Lang::Json => MediaType::Json,
    Lang::Wasm => MediaType::Wasm,
    Lang::Css => MediaType::Css,
    Lang::Unknown => MediaType::Unknown,
  }
}

/// Module info as the registry would embed it: produced by the real analyser
/// from the file's source.
pub fn embed_info(d: &ModuleDesc, bytes: &[u8], embed: Embed) -> Option<Value> {
  let url = ModuleSpecifier::parse(&d.url).ok()?;
  let analyzer = deno_graph::ast::ParserModuleAnalyzer::default();
  let wasm_dts;
  let (text, mt): (&str, MediaType) = if d.lang == Lang::Wasm {
    // what the builder's analyser is given for a Wasm module: the
    // declaration text generated from it
    wasm_dts = deno_graph::source::wasm::wasm_module_to_dts(bytes).ok()?;
    (wasm_dts.as_str(), MediaType::Dmts)
  } else {
    if !d.lang.is_script() || d.unparsable {
      return None;
    }
    let text = std::str::from_utf8(bytes).ok()?;
    (text.strip_prefix('\u{feff}').unwrap_or(text), media_type_of(d.lang))
  };
  let info = analyzer.analyze_sync(&url, text.into(), mt).ok()?;
  let v = serde_json::to_value(&info).ok()?;
  match embed {
    Embed::None => None,
    Embed::V2 => Some(v),
    Embed::V2RoundTrip => {
      let back: deno_graph::analysis::ModuleInfo =
        serde_json::from_value(v).ok()?;
      serde_json::to_value(&back).ok()
    }
    Embed::V1 => Some(to_v1(v, text)),
  }
}

/// Render a moduleGraph2 entry the way a version-1 manifest stored it:
/// `typesSpecifier` replaced by the `leadingComments` that carried it.
fn to_v1(mut v: Value, text: &str) -> Value {
  let lines: Vec<&str> = text.split('\n').collect();
  let is_comment = |l: &str| {
    l.starts_with("//") || (l.starts_with("/*") && l.ends_with("*/") && l.len() >= 4)
  };
  // the comment lines first..=last as version-1 `leadingComments`
  let comments = |first: usize, last: usize| -> Value {
    Value::Array(
      (first..=last)
        .map(|n| {
          let l = lines[n];
          let text = if l.starts_with("//") {
            &l[2..]
          } else {
            &l[2..l.len() - 2]
          };
          json!({
            "text": text,
            "range": [[n, 0], [n, l.len()]],
          })
        })
        .collect(),
    )
  };
  if let Some(deps) = v.get_mut("dependencies").and_then(|d| d.as_array_mut()) {
    for dep in deps {
      let Some(obj) = dep.as_object_mut() else {
        continue;
      };
      // the version-1 analyser stored every leading comment of the
      // statement: the contiguous comment lines above it
      let last = if let Some(ts) = obj.remove("typesSpecifier") {
        // the pragma is the last one
        ts.get("range")
          .and_then(|r| r.get(0))
          .and_then(|p| p.get(0))
          .and_then(|l| l.as_u64())
          .map(|l| l as usize)
      } else if obj.get("type").and_then(|t| t.as_str()) != Some("dynamic") {
        // statements are rendered on one line: the comments end on the line
        // above the specifier's
        obj
          .get("specifierRange")
          .and_then(|r| r.get(0))
          .and_then(|p| p.get(0))
          .and_then(|l| l.as_u64())
          .and_then(|l| (l as usize).checked_sub(1))
      } else {
        None
      };
      let Some(last) = last else { continue };
      if last >= lines.len() || !is_comment(lines[last]) {
        continue;
      }
      let mut first = last;
      while first > 0 && is_comment(lines[first - 1]) {
        first -= 1;
      }
      obj.insert("leadingComments".into(), comments(first, last));
    }
  }
  v
}

pub struct RegGenCfg {
  pub max_packages: u32,
  pub max_versions: u32,
  pub allow_yanked: bool,
  pub allow_dates: bool,
  pub allow_embed: bool,
  pub allow_manifest_faults: bool,
  pub allow_stale_meta: bool,
  pub allow_lockfile: bool,
  pub allow_cache: bool,
}

impl RegGenCfg {
  pub fn full() -> RegGenCfg {
    RegGenCfg {
      max_packages: 3,
      max_versions: 4,
      allow_yanked: true,
      allow_dates: true,
      allow_embed: true,
      allow_manifest_faults: true,
      allow_stale_meta: true,
      allow_lockfile: true,
      allow_cache: true,
    }
  }
}

/// Generate a world with a JSR registry and a local program importing it.
pub fn gen_registry_world(tape: &mut Tape, cfg: &RegGenCfg) -> World {
  let mut w = World::default();
  let npk = tape.small(Stream::World, 1, cfg.max_packages);
  let mut names: Vec<&str> = vec![];
  for _ in 0..npk {
    let n = *tape.pick(Stream::World, &PKG_NAMES);
    if !names.contains(&n) {
      names.push(n);
    }
  }
  for name in &names {
    let mut pkg = Package::default();
    let nv = tape.small(Stream::World, 1, cfg.max_versions);
    for _ in 0..nv {
      let v = *tape.pick(Stream::World, &VERSION_POOL);
      if pkg.versions.contains_key(v) {
        continue;
      }
      let yanked = cfg.allow_yanked && tape.draw(Stream::World, 5) == 4;
      let created_at = if cfg.allow_dates {
        match tape.draw(Stream::World, 4) {
          0 => None,
          1 => Some(T_CUTOFF - 86_400),
          2 => Some(T_CUTOFF),
          _ => Some(T_CUTOFF + 86_400),
        }
      } else {
        None
      };
      let mut files = BTreeMap::new();
      let mut modd = ModuleDesc::new("", Lang::Ts);
      let has_util = tape.draw(Stream::World, 2) == 1;
      let has_types = tape.draw(Stream::World, 4) == 3;
      let has_json = tape.draw(Stream::World, 5) == 4;
      if has_util {
        modd.items.push(Item::new(
          *tape.pick(
            Stream::World,
            &[Form::Named, Form::ExportStar, Form::Dynamic, Form::TypeOnly],
          ),
          "./util.ts",
        ));
        let mut u = ModuleDesc::new("", Lang::Ts);
        // util may import another package or npm
        match tape.draw(Stream::World, 5) {
          1 => {
            let other = *tape.pick(Stream::World, &PKG_NAMES);
            let req = *tape.pick(Stream::World, &REQ_POOL);
            // (static or dynamic: several packages importing the same
            // specifier dynamically share one parked dynamic branch)
            u.items.push(Item::new(
              *tape.pick(Stream::World, &[Form::Named, Form::Dynamic]),
              format!("jsr:{}{}", other, req),
            ));
          }
          2 => u.items.push(Item::new(
            *tape.pick(Stream::World, &[Form::Default, Form::Dynamic]),
            "npm:chalk@5",
          )),
          3 => {
            // https URL into the registry: own package, this version or
            // another one (which may or may not be published; a version
            // string may be a prefix of another, 1.2.0 / 1.2.0-pre)
            let ov = if tape.draw(Stream::World, 2) == 1 {
              *tape.pick(Stream::World, &VERSION_POOL)
            } else {
              v
            };
            u.items.push(Item::new(
              Form::SideEffect,
              format!("{}{}/{}/mod.ts", REGISTRY, name, ov),
            ));
          }
          _ => {}
        }
        files.insert("/util.ts".to_string(), u);
      }
      if has_types {
        let mut it = Item::new(Form::Named, "./impl.js");
        it.types_pragma = Some((tape.draw(Stream::World, 2) == 0, "./types.d.ts".into()));
        modd.items.push(it);
        files.insert("/impl.js".to_string(), ModuleDesc::new("", Lang::Js));
        files.insert("/types.d.ts".to_string(), ModuleDesc::new("", Lang::Dts));
      }
      if has_json {
        let mut it = Item::new(Form::Default, "./data.json");
        it.attr = Some("json".into());
        modd.items.push(it);
        files.insert("/data.json".to_string(), ModuleDesc::new("", Lang::Json));
      }
      if tape.draw(Stream::World, 6) == 5 {
        // a sibling script imported as an asset (text): never a module of
        // the graph, whatever the manifest says about its dependencies
        let mut it = Item::new(Form::Default, "./template.ts");
        it.attr = Some("text".into());
        modd.items.push(it);
        let mut t = ModuleDesc::new("", Lang::Ts);
        if has_util {
          t.items.push(Item::new(Form::SideEffect, "./util.ts"));
        }
        t.items.push(Item::new(Form::SideEffect, "./gone_below_template.ts"));
        files.insert("/template.ts".to_string(), t);
      }
      match tape.draw(Stream::World, 8) {
        6 => {
          // a Wasm file of the package imported at source phase only (an
          // asset load without a `type` attribute): an external entry,
          // whatever the manifest says about the file
          modd.items.push(Item::new(Form::Source, "./phase.wasm"));
          let mut t = ModuleDesc::new("", Lang::Wasm);
          if has_util {
            t.items.push(Item::new(Form::Default, "./util.ts"));
          }
          files.insert("/phase.wasm".to_string(), t);
        }
        7 => {
          // a Wasm module of the package imported as a module
          modd.items.push(Item::new(Form::Default, "./calc.wasm"));
          let mut t = ModuleDesc::new("", Lang::Wasm);
          if has_util {
            t.items.push(Item::new(Form::Default, "./util.ts"));
          }
          files.insert("/calc.wasm".to_string(), t);
        }
        _ => {}
      }
      if tape.draw(Stream::World, 6) == 5 {
        // a sibling script imported at source phase only (an asset load
        // without a `type` attribute): an external entry, never a module
        // built from what the manifest says about it
        modd.items.push(Item::new(Form::Source, "./phase.ts"));
        let mut t = ModuleDesc::new("", Lang::Ts);
        if has_util {
          t.items.push(Item::new(Form::SideEffect, "./util.ts"));
        }
        t.items.push(Item::new(Form::SideEffect, "./gone_below_phase.ts"));
        files.insert("/phase.ts".to_string(), t);
      }
      // richer files: the remaining fields of the module information
      if tape.draw(Stream::World, 2) == 1 {
        let mut r = ModuleDesc::new("", Lang::Tsx);
        if tape.draw(Stream::World, 2) == 1 {
          r.jsx_import_source = Some("./jsx".into());
          if tape.draw(Stream::World, 2) == 1 {
            r.jsx_import_source_types = Some("./jsxt".into());
          }
        }
        let pool = [
          (Form::TripleSlashPath, "./types.d.ts"),
          (Form::TripleSlashTypes, "./types.d.ts"),
          (Form::Dynamic, "./util.ts"),
          (Form::DynamicTpl, "./util.ts"),
          (Form::TypeOnly, "./util.ts"),
          (Form::ImportTypeExpr, "./mod.ts"),
          (Form::ExportStar, "./util.ts"),
          (Form::ExportNs, "./mod.ts"),
          (Form::ExportType, "./util.ts"),
          (Form::ImportEquals, "./legacy.js"),
          (Form::Namespace, "./legacy.js"),
          (Form::Defer, "./util.ts"),
          (Form::SideEffect, "./gone.ts"),
        ];
        let k = tape.range(Stream::World, 1, 5);
        for _ in 0..k {
          let (f, t) = *tape.pick(Stream::World, &pool);
          let mut it = Item::new(f, t);
          if !f.is_comment_form()
            && !f.is_ts_type()
            && !f.is_dynamic()
            && tape.draw(Stream::World, 5) == 4
          {
            it.types_pragma = Some((false, "./types.d.ts".into()));
          }
          r.items.push(it);
        }
        if tape.draw(Stream::World, 4) == 3 {
          r.source_map = Some("./rich.tsx.map".into());
        }
        if tape.draw(Stream::World, 6) == 5 {
          r.shebang = true;
        }
        files.insert("/rich.tsx".to_string(), r);
        modd.items.push(Item::new(
          *tape.pick(Stream::World, &[Form::Named, Form::Dynamic]),
          "./rich.tsx",
        ));
        let mut l = ModuleDesc::new("", Lang::Js);
        if tape.draw(Stream::World, 2) == 1 {
          l.self_types = Some("./types.d.ts".into());
        }
        if tape.draw(Stream::World, 2) == 1 {
          l.items.push(Item::new(Form::JsDocImport, "./util.ts"));
        }
        if tape.draw(Stream::World, 2) == 1 {
          l.items.push(Item::new(Form::JsDocType, "./mod.ts"));
        }
        if tape.draw(Stream::World, 3) == 2 {
          l.items.push(Item::new(Form::TripleSlashTypes, "./types.d.ts"));
        }
        files.insert("/legacy.js".to_string(), l);
        files
          .entry("/types.d.ts".to_string())
          .or_insert_with(|| ModuleDesc::new("", Lang::Dts));
      }
      // cross-package dependency from mod.ts
      if tape.draw(Stream::World, 3) == 2 {
        let other = *tape.pick(Stream::World, &PKG_NAMES);
        let req = *tape.pick(Stream::World, &REQ_POOL);
        modd
          .items
          .push(Item::new(Form::Named, format!("jsr:{}{}", other, req)));
      }
      if tape.draw(Stream::World, 6) == 5 {
        modd.items.push(Item::new(
          *tape.pick(Stream::World, &[Form::Default, Form::Dynamic, Form::Dynamic]),
          "npm:chalk@5",
        ));
      }
      if tape.draw(Stream::World, 8) == 7 {
        modd.items.push(Item::new(Form::SideEffect, "./gone.ts"));
      }
      files.insert("/mod.ts".to_string(), modd);
      let embed = if cfg.allow_embed {
        *tape.pick(
          Stream::World,
          &[Embed::None, Embed::V2, Embed::V2, Embed::V1],
        )
      } else {
        Embed::None
      };
      if embed == Embed::V1 {
        // a version-1 manifest can only carry `@deno-types`
        for d in files.values_mut() {
          for it in &mut d.items {
            if let Some((ts_types, _)) = &mut it.types_pragma {
              *ts_types = false;
            }
          }
        }
      }
      let exports = if has_util && tape.draw(Stream::World, 2) == 1 {
        let mut m = BTreeMap::new();
        m.insert(".".to_string(), "./mod.ts".to_string());
        m.insert("./util".to_string(), "./util.ts".to_string());
        if has_json {
          m.insert("./data.json".to_string(), "./data.json".to_string());
        }
        Exports::Map(m)
      } else if tape.draw(Stream::World, 2) == 1 {
        let mut m = BTreeMap::new();
        m.insert(".".to_string(), "./mod.ts".to_string());
        Exports::Map(m)
      } else {
        Exports::Single("./mod.ts".to_string())
      };
      let mut pv = PkgVersion {
        yanked,
        created_at,
        exports,
        files,
        embed,
        manifest_omit: BTreeSet::new(),
        manifest_bad_prefix: BTreeSet::new(),
        lockfile_checksum: None,
        manifest_missing: false,
      };
      if cfg.allow_manifest_faults {
        match tape.draw(Stream::World, 24) {
          20 => {
            pv.manifest_omit.insert("/mod.ts".into());
          }
          21 => {
            pv.manifest_bad_prefix.insert("/mod.ts".into());
          }
          22 => pv.manifest_missing = true,
          23 => pv.lockfile_checksum = Some("feedfacefeedface".into()),
          _ => {}
        }
      }
      pkg.versions.insert(v.to_string(), pv);
    }
    if tape.draw(Stream::World, 8) == 7 && !pkg.versions.is_empty() {
      // look-alike sibling versions: "1.2.0" is a string prefix of
      // "1.2.0-pre"; the release imports a file of the pre-release by its
      // https registry URL
      let proto = pkg.versions.values().next().unwrap().clone();
      for v in ["1.2.0", "1.2.0-pre"] {
        pkg
          .versions
          .entry(v.to_string())
          .or_insert_with(|| proto.clone());
      }
      let url = format!("{}{}/1.2.0-pre/mod.ts", REGISTRY, name);
      if let Some(m) = pkg
        .versions
        .get_mut("1.2.0")
        .and_then(|pv| pv.files.get_mut("/mod.ts"))
      {
        m.items.push(Item::new(Form::SideEffect, url));
      }
    }
    if cfg.allow_stale_meta && tape.draw(Stream::World, 5) == 4 {
      // stale cached meta.json listing a subset of versions
      let mut subset = BTreeSet::new();
      for v in pkg.versions.keys() {
        if tape.draw(Stream::World, 2) == 0 {
          subset.insert(v.clone());
        }
      }
      pkg.stale_cached_meta = Some(subset);
    }
    w.registry.packages.insert(name.to_string(), pkg);
  }
  w.render_registry(&embed_info);
  // a manifest that carries `lockfileChecksum` is a vendored copy: the loader
  // does not verify such files (that is what the field exists for)
  for (name, pkg) in &w.registry.packages {
    for (v, pv) in &pkg.versions {
      if pv.lockfile_checksum.is_some() {
        w.vendored
          .insert(format!("{}{}/{}_meta.json", REGISTRY, name, v));
      }
    }
  }
  // cache tier
  if cfg.allow_cache {
    let urls: Vec<String> = w
      .remote
      .keys()
      .filter(|u| u.starts_with(REGISTRY))
      .cloned()
      .collect();
    let mode = tape.draw(Stream::World, 3); // 0 nothing, 1 some, 2 all
    for u in urls {
      if u.ends_with("/meta.json") {
        continue; // handled by stale_cached_meta
      }
      let cached = match mode {
        0 => false,
        2 => true,
        _ => tape.draw(Stream::World, 2) == 1,
      };
      if cached {
        w.cache.entry(u).or_insert(None);
      }
    }
  }
  // local program
  let nmods = tape.small(Stream::World, 1, 3);
  for i in 0..nmods {
    let mut d = ModuleDesc::new(format!("{}main{}.ts", H_FILE, i), Lang::Ts);
    let k = tape.small(Stream::World, 1, 3);
    for _ in 0..k {
      let name = if tape.draw(Stream::World, 8) == 7 {
        *tape.pick(Stream::World, &PKG_NAMES)
      } else {
        *tape.pick(Stream::World, &names)
      };
      let req = *tape.pick(Stream::World, &REQ_POOL);
      let sub = *tape.pick(
        Stream::World,
        &["", "", "", "/util", "/nope", "/data.json"],
      );
      let form = *tape.pick(
        Stream::World,
        &[Form::Named, Form::Namespace, Form::Dynamic, Form::TypeOnly, Form::ExportStar],
      );
      let spec = if tape.draw(Stream::World, 24) == 23 {
        format!("jsr:{}@latest{}", name, sub)
      } else {
        format!("jsr:{}{}{}", name, req, sub)
      };
      if d.items.iter().any(|it| it.spec == spec) {
        continue;
      }
      let mut it = Item::new(form, spec);
      if sub == "/data.json" && !form.is_ts_type() {
        it.attr = Some("json".into());
      }
      d.items.push(it);
    }
    if i + 1 < nmods {
      d.items.push(Item::new(
        *tape.pick(Stream::World, &[Form::SideEffect, Form::Dynamic]),
        format!("./main{}.ts", i + 1),
      ));
    }
    // an https import straight into the registry
    if tape.draw(Stream::World, 8) == 7 {
      if let Some((n, p)) = w.registry.packages.iter().next() {
        if let Some(v) = p.versions.keys().next() {
          d.items.push(Item::new(
            Form::SideEffect,
            format!("{}{}/{}/mod.ts", REGISTRY, n, v),
          ));
        }
      }
    }
    w.add_desc(d);
  }
  w.roots.push(format!("{}main0.ts", H_FILE));
  if tape.draw(Stream::World, 6) == 5 {
    let name = *tape.pick(Stream::World, &names);
    w.roots.push(format!("jsr:{}", name));
  }
  w.npm.enabled = tape.draw(Stream::World, 2) == 1;
  // lockfile
  if cfg.allow_lockfile && tape.draw(Stream::World, 3) == 2 {
    w.lockfile.present = true;
    for (name, pkg) in &w.registry.packages {
      for v in pkg.versions.keys() {
        match tape.draw(Stream::World, 6) {
          0 | 1 => {
            // pin some requirement
            let req = *tape.pick(Stream::World, &REQ_POOL);
            // a lockfile pins a requirement to a version that satisfies it
            if req_matches(req, v) {
              w.lockfile
                .jsr_specifiers
                .insert(format!("jsr:{}{}", name, req), v.clone());
            }
          }
          2 => {
            // manifest checksum, matching
            let u = format!("{}{}/{}_meta.json", REGISTRY, name, v);
            if let Some(Entry::Module { bytes, .. }) = w.remote.get(&u) {
              w.lockfile
                .pkg_manifests
                .insert(format!("{}@{}", name, v), sha256_hex(bytes));
            }
          }
          3 => {
            // mismatching
            w.lockfile
              .pkg_manifests
              .insert(format!("{}@{}", name, v), "0".repeat(64));
          }
          _ => {}
        }
      }
    }
  }
  w
}

/// The mixed generator: mostly plain worlds, sometimes registry worlds,
/// sometimes a plain world with lockfile checksums for remote modules.
pub fn gen_any_world(tape: &mut Tape, cfg: &GenCfg) -> World {
  match tape.draw(Stream::World, 4) {
    3 => gen_registry_world(tape, &RegGenCfg::full()),
    _ => {
      let mut w = gen_world(tape, cfg);
      if tape.draw(Stream::World, 4) == 3 {
        add_remote_lockfile(tape, &mut w);
      }
      w
    }
  }
}

/// Lockfile entries (matching / mismatching / absent) for remote modules,
/// plus corrupt cache copies so the checksum retry path is exercised.
pub fn add_remote_lockfile(tape: &mut Tape, w: &mut World) {
  w.lockfile.present = true;
  let remotes: Vec<(String, Vec<u8>)> = w
    .remote
    .iter()
    .filter(|(u, _)| u.starts_with("http"))
    .filter_map(|(u, e)| match e {
      Entry::Module { bytes, .. } => Some((u.clone(), bytes.clone())),
      _ => None,
    })
    .collect();
  for (u, bytes) in remotes {
    match tape.draw(Stream::World, 5) {
      0 | 1 => {
        w.lockfile.remote.insert(u.clone(), sha256_hex(&bytes));
        // sometimes a corrupt cached copy: Use fails, Reload succeeds
        if tape.draw(Stream::World, 3) == 2 {
          let mut bad = bytes.clone();
          bad.extend_from_slice(b"\n// tampered\n");
          let headers = match w.remote.get(&u) {
            Some(Entry::Module { headers, .. }) => headers.clone(),
            _ => vec![],
          };
          w.cache.insert(
            u,
            Some(Entry::Module {
              bytes: bad,
              headers,
              final_url: None,
            }),
          );
        }
      }
      2 => {
        w.lockfile.remote.insert(u, "1".repeat(64));
      }
      _ => {}
    }
  }
}

/// Remove the lockfile and the corrupt cache copies that only exist to make
/// checksum retries meaningful.
pub fn strip_lockfile(w: &mut World) {
  w.lockfile = Default::default();
  w.cache.retain(|k, v| v.is_none() || k.ends_with("/meta.json"));
}

/// After descriptions of registry files were rewritten (e.g. by the
/// same-attribute proviso), re-publish the registry so that manifests,
/// checksums and embedded module info match the files again.
pub fn resync_registry(w: &mut World) {
  if w.registry.packages.is_empty() {
    return;
  }
  let mut reg = w.registry.clone();
  for (name, pkg) in reg.packages.iter_mut() {
    for (v, pv) in pkg.versions.iter_mut() {
      for (path, d) in pv.files.iter_mut() {
        let url = format!("{}{}/{}{}", REGISTRY, name, v, path);
        if let Some(cur) = w.descs.get(&url) {
          let mut nd = cur.clone();
          nd.url = String::new();
          *d = nd;
        }
      }
    }
  }
  w.registry = reg;
  w.render_registry(&embed_info);
}

/// Does the requirement suffix (`""`, `"@^1"`, ...) admit version `v`?
pub fn req_matches(req_suffix: &str, v: &str) -> bool {
  let txt = req_suffix.strip_prefix('@').unwrap_or("*");
  let txt = if txt.is_empty() { "*" } else { txt };
  match (
    deno_semver::VersionReq::parse_from_specifier(txt),
    deno_semver::Version::parse_standard(v),
  ) {
    (Ok(r), Ok(v)) => r.tag().is_none() && r.matches(&v),
    _ => false,
  }
}

/// Is how deno_graph treats this specifier a matter of the context of its
/// first visitor? Attribute-less JSON and unknown media types are accepted
/// or rejected depending on root / dynamic-branch context, and npm entries
/// depend on whether they were first met statically or dynamically when the
/// resolver fails. An existing entry is never re-evaluated, so two graphs
/// that met such a specifier in different contexts differ there (known
/// findings, DESIGN.md §6).
pub fn context_sensitive(w: &World, url: &str) -> bool {
  if url.starts_with("npm:") {
    return w.npm.enabled && (w.npm.dep_graph_fails || !w.npm.fail.is_empty());
  }
  let f = final_target(w, url);
  match w.descs.get(&f) {
    Some(d) => matches!(d.lang, Lang::Json | Lang::Unknown | Lang::Css),
    None => {
      let path = f.split(['?', '#']).next().unwrap_or(&f);
      path.ends_with(".json") || path.ends_with(".txt") || path.ends_with(".css")
    }
  }
}
