//! C05 — known checksums are always enforced; new ones are recorded
//! faithfully. An online monitor over the `Loader` and `Locker` seam histories
//! plus a record-then-verify history (second build with the lockfile the first
//! one wrote).

use std::collections::BTreeMap;
use std::collections::BTreeSet;

use deno_graph::ModuleSpecifier;
use deno_graph::source::recommended_registry_package_url_to_nv;
use serde_json::Value;
use serde_json::json;

use crate::checks::c04::truncate;
use crate::checks::common::*;
use crate::checks::worlds::RegGenCfg;
use crate::checks::worlds::gen_registry_world;
use crate::exec::RunEnd;
use crate::framework::CaseOutcome;
use crate::framework::CaseParams;
use crate::framework::CheckSpec;
use crate::framework::Tier;
use crate::observe::first_diff;
use crate::run::SchedOpts;
use crate::run::SemOpts;
use crate::seams::LoadRecord;
use crate::seams::LockerCall;
use crate::seams::LockerState;
use crate::shape::Shape;
use crate::shape::SlotShape;
use crate::shape::shape_of;
use crate::tape::Stream;
use crate::tape::Tape;
use crate::world::*;

pub fn spec() -> CheckSpec {
  CheckSpec {
    id: "C05",
    level: "exploration",
    rule: "case = world with remote modules and/or registry packages x lockfile contents per resource {absent, matching, mismatching} x tampering {corrupt cache copy, tampered remote, both} x load paths (static, dynamic, asset via ensure_cached, redirect targets, implicit final-url redirects, registry sub paths with and without embedded module info, https URLs into the registry, cached-version probes) built with a Locker under a drawn schedule. Monitor over every Loader/Locker call: (1) the checksum presented equals the one known at that moment (lockfile for remote modules and version manifests, the served version manifest for package files, the documented sentinel for files missing from it); (2) after an integrity answer at most one further request for that URL, with Reload and the same checksum, never for registry URLs; unverified content is never the source of a module; (3) a redirect answer to a checksummed or in-package request is not followed; (4) set_remote_checksum only for new http(s) non-declaration modules outside the registry, exactly once each, with the SHA-256 of the bytes served; (5) set_pkg_manifest_checksum carries the manifest's lockfileChecksum or the SHA-256 of the manifest bytes served and never touches an entry the lockfile had; (6) a second build of the unchanged world with the lockfile just written sees no new integrity failure and yields the same graph. distinct+non-trivial = distinct (world, lockfile) pairs in which at least one checksum was presented or recorded",
    assumptions: vec![
      "the simulated loader is honest: it verifies LoadOptions::maybe_checksum against the bytes it is about to return, as the Loader documentation asks",
      "the cached-version probe (CacheSetting::Only on a version manifest) is exempt from rule 1: it uses only the existence of the answer",
    ],
    real_components: "deno_graph builder (load_pending_module, try_load, handle_redirect, load_jsr_subpath, visit), JsrMetadataStore, LoaderChecksum",
    stub_components: "Loader (two tiers, tampering, logs bytes served), Locker (records every call), other seams simulated",
    quick_cases: 10000,
    thorough_cases: 400000,
    run_case,
    systematic: |_| 0,
  }
}

fn nv_of(url: &str) -> Option<(String, String)> {
  let reg = ModuleSpecifier::parse(REGISTRY).ok()?;
  let u = ModuleSpecifier::parse(url).ok()?;
  let nv = recommended_registry_package_url_to_nv(&reg, &u)?;
  let prefix = format!("{}{}/{}/", REGISTRY, nv.name, nv.version);
  let sub = url.strip_prefix(&prefix)?;
  Some((nv.to_string(), format!("/{}", sub)))
}

fn is_version_manifest(url: &str) -> Option<String> {
  // .../@s/n/<v>_meta.json -> "@s/n@<v>"
  let rest = url.strip_prefix(REGISTRY)?;
  let mut it = rest.splitn(3, '/');
  let (s, n, f) = (it.next()?, it.next()?, it.next()?);
  let v = f.strip_suffix("_meta.json")?;
  if f.contains('/') {
    return None;
  }
  deno_semver::Version::parse_standard(v).ok()?;
  Some(format!("{}/{}@{}", s, n, v))
}

struct RunOut {
  end: RunEnd,
  obs: Value,
  shape: Option<Shape>,
  loads: Vec<LoadRecord>,
  locker_calls: Vec<(u64, LockerCall)>,
  locker: LockerState,
  summary: ReportSummary,
}

fn do_build(
  world: &World,
  sem: &SemOpts,
  sched: &SchedOpts,
  tape: Tape,
  hash_seed: u64,
) -> Result<(RunOut, Tape), String> {
  let (b, t) = build_fresh(
    world,
    &FaultPlan::default(),
    sem,
    sched,
    tape,
    hash_seed,
    false,
    |session, report, _| {
      (
        if report.end == RunEnd::Done {
          Some(shape_of(&session.graph))
        } else {
          None
        },
        report.loads.clone(),
        report.locker_calls.clone(),
        session.locker.clone(),
      )
    },
  )?;
  Ok((
    RunOut {
      end: b.end,
      obs: b.obs,
      shape: b.extra.0,
      loads: b.extra.1,
      locker_calls: b.extra.2,
      locker: b.extra.3,
      summary: b.summary,
    },
    t,
  ))
}

/// Tamper with some served bytes after the lockfile / manifests were written.
fn tamper(tape: &mut Tape, w: &mut World) {
  let candidates: Vec<String> = w
    .remote
    .iter()
    .filter(|(u, e)| {
      u.starts_with("http")
        && !u.ends_with("meta.json")
        && matches!(e, Entry::Module { .. })
    })
    .map(|(u, _)| u.clone())
    .collect();
  if candidates.is_empty() {
    return;
  }
  let n = tape.small(Stream::Faults, 0, 2);
  for _ in 0..n {
    let u = candidates
      [tape.draw(Stream::Faults, candidates.len() as u32) as usize]
      .clone();
    let Some(Entry::Module { bytes, headers, final_url }) = w.remote.get(&u).cloned()
    else {
      continue;
    };
    let mut bad = bytes.clone();
    bad.extend_from_slice(b"\n// tampered\n");
    let bad_entry = Entry::Module {
      bytes: bad,
      headers,
      final_url,
    };
    match tape.draw(Stream::Faults, 3) {
      0 => {
        // corrupt cached copy only: Use fails, Reload succeeds
        w.cache.insert(u, Some(bad_entry));
      }
      1 => {
        // remote tampered (the cache, if any, still has the good copy)
        w.remote.insert(u, bad_entry);
      }
      _ => {
        w.cache.insert(u.clone(), Some(bad_entry.clone()));
        w.remote.insert(u, bad_entry);
      }
    }
  }
  refresh_aliases(w);
}

pub fn run_case(tape: &mut Tape, _tier: Tier, _p: &CaseParams) -> CaseOutcome {
  let mut out = CaseOutcome::default();
  let mut world = if tape.draw(Stream::World, 2) == 1 {
    let mut cfg = RegGenCfg::full();
    cfg.allow_lockfile = true;
    let mut w = gen_registry_world(tape, &cfg);
    w.lockfile.present = true;
    w
  } else {
    let mut cfg = GenCfg::basic();
    cfg.hosts = vec![H_A, H_B, H_C, H_A, H_B, H_FILE];
    let mut w = gen_world(tape, &cfg);
    crate::checks::worlds::add_remote_lockfile(tape, &mut w);
    w
  };
  // a lockfile `remote` entry for a registry file that is imported by its
  // https url: the checksum of the version manifest still is the one to present
  if !world.registry.packages.is_empty() && tape.draw(Stream::World, 3) == 2 {
    let imported: Vec<String> = world
      .descs
      .values()
      .filter(|d| !d.url.starts_with(REGISTRY))
      .flat_map(|d| d.items.iter().map(|i| i.spec.clone()))
      .filter(|s| s.starts_with(REGISTRY))
      .collect();
    for u in imported {
      if let Some(Entry::Module { bytes, .. }) = world.remote.get(&u) {
        let sum = if tape.draw(Stream::World, 2) == 1 {
          "3".repeat(64)
        } else {
          sha256_hex(bytes)
        };
        world.lockfile.remote.entry(u).or_insert(sum);
        out.count("probe.lockfile_remote_entry_for_registry_file", 1);
      }
    }
  }
  // asset imports (ensure_cached path) of checksummed remote urls, and
  // lockfile-seeded redirects onto checksummed targets
  if world.registry.packages.is_empty() {
    let remotes: Vec<String> = world
      .remote
      .iter()
      .filter(|(u, e)| {
        u.starts_with("http") && matches!(e, Entry::Module { final_url: None, .. })
      })
      .map(|(u, _)| u.clone())
      .collect();
    if !remotes.is_empty() && tape.draw(Stream::World, 2) == 1 {
      let mut d = ModuleDesc::new(format!("{}assets.ts", H_A), Lang::Ts);
      let n = tape.range(Stream::World, 1, 2);
      for _ in 0..n {
        let t = remotes[tape.draw(Stream::World, remotes.len() as u32) as usize].clone();
        if d.items.iter().any(|i| i.spec == t) {
          continue;
        }
        let mut it = Item::new(
          *tape.pick(Stream::World, &[Form::Default, Form::Dynamic]),
          t.clone(),
        );
        it.attr = Some(tape.pick(Stream::World, &["text", "bytes", "css"]).to_string());
        d.items.push(it);
        // make sure the lockfile knows a checksum for it (right or wrong)
        if let Some(Entry::Module { bytes, .. }) = world.remote.get(&t) {
          let sum = if tape.draw(Stream::World, 3) == 2 {
            "2".repeat(64)
          } else {
            sha256_hex(bytes)
          };
          world.lockfile.remote.entry(t.clone()).or_insert(sum);
        }
        // the asset has moved: the cache still holds an outdated copy (fails
        // verification) and the cache-bypassing retry is answered with a
        // redirect, which a checksummed url must not follow
        if tape.draw(Stream::World, 4) == 3 && !world.roots.contains(&t) {
          if let Some(Entry::Module { bytes, headers, .. }) = world.remote.get(&t).cloned() {
            let others: Vec<String> =
              remotes.iter().filter(|r| **r != t).cloned().collect();
            if !others.is_empty() {
              let to = others[tape.draw(Stream::World, others.len() as u32) as usize].clone();
              let mut old = bytes.clone();
              old.extend_from_slice(b"\n// outdated cached copy\n");
              world.lockfile.remote.insert(t.clone(), sha256_hex(&bytes));
              world.cache.insert(
                t.clone(),
                Some(Entry::Module { bytes: old, headers, final_url: None }),
              );
              world.remote.insert(t.clone(), Entry::Redirect(to));
              out.count("probe.asset_moved_stale_cache_then_redirect", 1);
            }
          }
        }
      }
      world.roots.push(d.url.clone());
      world.add_desc(d);
    }
    let redirs: Vec<(String, String)> = world
      .remote
      .iter()
      .filter_map(|(u, e)| match e {
        Entry::Redirect(t) if remotes.contains(t) => Some((u.clone(), t.clone())),
        _ => None,
      })
      .collect();
    for (u, t) in redirs {
      if tape.draw(Stream::World, 2) == 1 {
        world.lockfile.redirects.insert(u.clone(), t.clone());
        if let Some(Entry::Module { bytes, .. }) = world.remote.get(&t) {
          world
            .lockfile
            .remote
            .entry(t)
            .or_insert_with(|| sha256_hex(bytes));
        }
        if !world.roots.contains(&u) && tape.draw(Stream::World, 2) == 1 {
          world.roots.push(u);
        }
      }
    }
  }
  // sometimes one remote module is served as UTF-16 with a charset header
  if tape.draw(Stream::World, 6) == 5 {
    let cands: Vec<String> = world
      .remote
      .iter()
      .filter(|(u, e)| {
        u.starts_with("http")
          && !u.starts_with(REGISTRY)
          && u.ends_with(".ts")
          && matches!(e, Entry::Module { final_url: None, .. })
          && !world.lockfile.remote.contains_key(*u)
      })
      .map(|(u, _)| u.clone())
      .collect();
    if let Some(u) = cands.first() {
      if let Some(Entry::Module { bytes, .. }) = world.remote.get(u).cloned() {
        if let Ok(text) = String::from_utf8(bytes) {
          let mut b = vec![];
          for unit in text.trim_start_matches('\u{feff}').encode_utf16() {
            b.extend_from_slice(&unit.to_le_bytes());
          }
          world.remote.insert(
            u.clone(),
            Entry::Module {
              bytes: b,
              headers: vec![(
                "content-type".into(),
                "application/typescript; charset=utf-16le".into(),
              )],
              final_url: None,
            },
          );
        }
      }
    }
  }
  tamper(tape, &mut world);
  // a divergent alias: a URL answered with another final specifier and with
  // bytes that differ from what that final specifier itself serves, while the
  // lockfile holds the checksum of the latter; the same module imports the
  // final specifier directly afterwards (so that its own load is already
  // outstanding when the alias' answer is processed)
  if world.registry.packages.is_empty() && tape.draw(Stream::World, 5) == 4 {
    let targets: Vec<String> = world
      .remote
      .iter()
      .filter(|(u, e)| {
        u.starts_with("http")
          && world.descs.get(*u).is_some_and(|d| d.lang.is_script())
          && matches!(e, Entry::Module { final_url: None, .. })
          && !world.cache.contains_key(*u)
      })
      .map(|(u, _)| u.clone())
      .collect();
    let importer = world
      .roots
      .first()
      .and_then(|r| world.descs.get(r))
      .filter(|d| d.lang.is_script() && !d.lang.is_declaration())
      .cloned();
    if let (false, Some(mut imp)) = (targets.is_empty(), importer) {
      let to = targets[tape.draw(Stream::World, targets.len() as u32) as usize].clone();
      if let Some(Entry::Module { bytes, headers, .. }) = world.remote.get(&to).cloned() {
        let alias = format!("{}stale_alias.ts", H_B);
        let mut stale = bytes.clone();
        stale.extend_from_slice(b"\n// stale copy served under the alias\n");
        world.remote.insert(
          alias.clone(),
          Entry::Module {
            bytes: stale,
            headers,
            final_url: Some(to.clone()),
          },
        );
        world.lockfile.remote.insert(to.clone(), sha256_hex(&bytes));
        let first = tape.draw(Stream::World, 3) != 0;
        if first {
          imp.items.push(Item::new(Form::SideEffect, alias.clone()));
          imp.items.push(Item::new(Form::SideEffect, to.clone()));
        } else {
          imp.items.push(Item::new(Form::SideEffect, to.clone()));
          imp.items.push(Item::new(Form::SideEffect, alias.clone()));
        }
        world.add_desc(imp);
        out.count("probe.divergent_alias_world", 1);
      }
    }
  }
  let mut sem = SemOpts::draw(tape);
  sem.with_locker = true;
  // asset imports are only loaded when their attribute type is enabled
  if tape.draw(Stream::Options, 3) != 0 {
    sem.unstable_bytes = true;
    sem.unstable_text = true;
    sem.unstable_css = true;
  }
  sem.prefer_cached_jsr = !world.registry.packages.is_empty()
    && tape.draw(Stream::Options, 4) == 3;
  let sched = SchedOpts::draw(tape);
  let hash_seed = draw_hash_seed(tape);
  let t0 = std::mem::replace(tape, Tape::replay(Default::default()));
  let (r1, t1) = match do_build(&world, &sem, &sched, t0, hash_seed) {
    Ok(x) => x,
    Err(e) => {
      out.harness_error = Some(format!("run thread panicked: {}", e));
      return out;
    }
  };
  *tape = t1;
  add_summary(&mut out, &r1.summary, &sched);
  if r1.end != RunEnd::Done {
    out.count("abnormal_end", 1);
    return out;
  }
  let shape = r1.shape.as_ref().unwrap();
  let ctx = |extra: Value| {
    json!({"what": extra, "sem": sem, "sched": sched, "hash_seed": hash_seed, "world": world.to_json()})
  };
  // lockfile as of a moment
  let initial_remote = world.lockfile.remote.clone();
  let initial_pkg = world.lockfile.pkg_manifests.clone();
  let remote_at = |url: &str, seq: u64| -> Option<String> {
    if let Some(c) = initial_remote.get(url) {
      return Some(c.clone());
    }
    r1.locker_calls
      .iter()
      .filter(|(s, _)| *s < seq)
      .filter_map(|(_, c)| match c {
        LockerCall::SetRemote(u, c, _) if u == url => Some(c.clone()),
        _ => None,
      })
      .next_back()
  };
  let pkg_at = |nv: &str, seq: u64| -> Option<String> {
    if let Some(c) = initial_pkg.get(nv) {
      return Some(c.clone());
    }
    r1.locker_calls
      .iter()
      .filter(|(s, _)| *s < seq)
      .filter_map(|(_, c)| match c {
        LockerCall::SetPkg(n, c, _) if n == nv => Some(c.clone()),
        _ => None,
      })
      .next_back()
  };
  // version manifests as served in this run
  let manifest_at = |nv: &str, seq: u64| -> Option<Value> {
    let (name, v) = nv.rsplit_once('@')?;
    let url = format!("{}{}/{}_meta.json", REGISTRY, name, v);
    r1.loads
      .iter()
      .filter(|l| l.id.url == url && l.seq < seq && l.answer == "module")
      .next_back()
      .and_then(|l| l.served.as_ref())
      .and_then(|b| serde_json::from_slice(b).ok())
  };
  let mut presented = 0u64;
  // (1) checksum presented
  for l in &r1.loads {
    let u = &l.id.url;
    if u.starts_with("data:") {
      continue;
    }
    let expected: Option<String> = if u.ends_with("/meta.json")
      && u.starts_with(REGISTRY)
    {
      None
    } else if let Some(nv) = is_version_manifest(u) {
      if l.id.cs == CS_ONLY {
        continue; // cached-version probe: existence only
      }
      pkg_at(&nv, l.seq)
    } else if let Some((nv, sub)) = nv_of(u) {
      match manifest_at(&nv, l.seq) {
        Some(m) => match m["manifest"].get(&sub) {
          Some(e) => {
            let c = e["checksum"].as_str().unwrap_or("");
            match c.strip_prefix("sha256-") {
              Some(h) => Some(h.to_string()),
              None => {
                out.violation(
                  "C05",
                  "checksum-presented",
                  "load-despite-unsupported-manifest-checksum",
                  format!("{} was requested although its manifest checksum {:?} is not sha256", l.id.label(), c),
                  ctx(json!({"request": l.id.label()})),
                );
                return out;
              }
            }
          }
          None => Some("package-manifest-missing-checksum".to_string()),
        },
        None => {
          out.violation(
            "C05",
            "checksum-presented",
            "package-file-requested-without-manifest",
            format!(
              "{} lies in registry package {} but was requested before any version manifest of it was delivered",
              l.id.label(),
              nv
            ),
            ctx(json!({"request": l.id.label()})),
          );
          return out;
        }
      }
    } else {
      remote_at(u, l.seq)
    };
    if expected.is_some() || l.checksum.is_some() {
      presented += 1;
    }
    // A checksum recorded during this very build (not one the lockfile came
    // with) may or may not be known yet when a request in flight was
    // prepared: presenting it or nothing are both fine.
    let recorded_in_this_build = !initial_remote.contains_key(u)
      && is_version_manifest(u)
        .map(|nv| !initial_pkg.contains_key(&nv))
        .unwrap_or(true)
      && nv_of(u).is_none();
    if recorded_in_this_build && l.checksum.is_none() {
      continue;
    }
    if l.checksum != expected {
      let class = if is_version_manifest(u).is_some() {
        "version-manifest"
      } else if nv_of(u).is_some() {
        "package-file"
      } else {
        "remote-module"
      };
      out.violation(
        "C05",
        "checksum-presented",
        format!(
          "checksum-not-presented:{}:{}{}",
          class,
          if l.id.ensure { "ensure_cached" } else { "load" },
          if l.in_dynamic_branch { ":dynamic" } else { "" }
        ),
        format!(
          "{} presented checksum {:?}, the known checksum is {:?}",
          l.id.label(),
          l.checksum,
          expected
        ),
        ctx(json!({"request": l.id.label(), "presented": l.checksum, "expected": expected})),
      );
      return out;
    }
  }
  // (1b) content admitted under a final specifier whose checksum is known
  for l in &r1.loads {
    if l.answer != "module" {
      continue;
    }
    let Some(f) = &l.final_url else { continue };
    if *f == l.id.url {
      continue;
    }
    if let (Some(known), Some(served)) = (remote_at(f, l.seq), &l.served) {
      if sha256_hex(served) != known {
        // was it admitted?
        if let Some(SlotShape::Module(_)) = shape.slots.get(f) {
          let text_matches = r1.obs["modules"][f.as_str()]["source"]
            .as_str()
            .is_some_and(|t| {
              String::from_utf8_lossy(served).trim_start_matches('\u{feff}') == t
            });
          if text_matches {
            out.violation(
              "C05",
              "known-checksum-enforced",
              "admitted-through-implicit-redirect-without-verification",
              format!(
                "the lockfile knows checksum {} for {}; a request for {} was answered with that final specifier and content with checksum {}, and the content was admitted as the module",
                known,
                f,
                l.id.url,
                sha256_hex(served)
              ),
              ctx(json!({"request": l.id.label(), "final": f})),
            );
            return out;
          }
        }
      }
    }
  }
  // (a cache-busting restart abandons the first pass: what was requested,
  // rejected or delivered there may never be used)
  let restart_seq = r1
    .loads
    .iter()
    .filter(|l| {
      l.id.nth >= 1
        && l.id.cs == CS_USE
        && !l.id.ensure
        && world.roots.contains(&l.id.url)
    })
    .map(|l| l.seq)
    .max()
    .unwrap_or(0);
  // (2) integrity answers and retries
  let mut by_url: BTreeMap<(String, bool), Vec<&LoadRecord>> = BTreeMap::new();
  for l in &r1.loads {
    by_url
      .entry((l.id.url.clone(), l.id.ensure))
      .or_default()
      .push(l);
  }
  for ((u, _ensure), recs) in &by_url {
    let first_integrity = recs.iter().position(|l| l.answer == "integrity");
    let Some(i) = first_integrity else { continue };
    if recs[i].id.cs == CS_ONLY {
      continue;
    }
    out.count("probe.integrity_answer", 1);
    let later: Vec<&&LoadRecord> = recs[i + 1..]
      .iter()
      .filter(|l| l.id.cs != CS_ONLY)
      .collect();
    let in_registry = u.starts_with(REGISTRY);
    let restart_happened = r1.loads.iter().any(|l| {
      world.roots.first() == Some(&l.id.url) && l.id.nth >= 1
    });
    if !restart_happened {
      if in_registry && !later.is_empty() && !u.ends_with("meta.json") {
        out.violation(
          "C05",
          "integrity-retry-rule",
          "registry-url-retried-after-integrity-failure",
          format!("{} failed verification and was requested again: {:?}", u, later.iter().map(|l| l.id.label()).collect::<Vec<_>>()),
          ctx(json!({"url": u})),
        );
        return out;
      }
      if later.len() > 1
        || later.iter().any(|l| {
          l.id.cs != CS_RELOAD || l.checksum != recs[i].checksum
        })
      {
        out.violation(
          "C05",
          "integrity-retry-rule",
          "more-than-one-retry-or-wrong-retry",
          format!(
            "{} failed verification; follow-up requests: {:?}",
            u,
            later
              .iter()
              .map(|l| format!("{} sum={:?}", l.id.label(), l.checksum))
              .collect::<Vec<_>>()
          ),
          ctx(json!({"url": u})),
        );
        return out;
      }
    }
    let retry_ok = later.iter().any(|l| l.answer == "module" || l.answer == "external");
    if !retry_ok && !u.ends_with("meta.json") && recs[i].seq >= restart_seq {
      // final entry must be an integrity error, unless another verified
      // request (other ensure flag / implicit redirect) filled the entry
      let other_verified = r1.loads.iter().any(|l| {
        l.answer == "module" && l.final_url.as_deref() == Some(u.as_str())
      });
      match shape.slots.get(u) {
        // an integrity error - or whatever error another request that
        // resolved to this specifier stored over it; never a module
        Some(SlotShape::Err { .. }) => {}
        Some(SlotShape::Module(_)) if other_verified => {}
        // an external entry stands for an asset whose cached copy was
        // verified, or for a specifier the loader declared external; it is
        // not a way to admit a request that failed verification
        Some(SlotShape::Module(m))
          if m.kind == "external"
            && r1.loads.iter().any(|l| l.id.url == *u && l.answer == "external") => {}
        other => {
          out.violation(
            "C05",
            "rejected-content-not-admitted",
            "no-integrity-error-after-failed-verification",
            format!(
              "{} failed verification (and the retry, if any, too) but its entry is {:?}",
              u,
              other.map(|s| match s {
                SlotShape::Module(m) => format!("module:{}", m.kind),
                SlotShape::Err { text, .. } => truncate(text, 80),
              })
            ),
            ctx(json!({"url": u})),
          );
          return out;
        }
      }
    }
  }
  // admitted module sources were served by a request that passed
  for (u, slot) in &shape.slots {
    let SlotShape::Module(m) = slot else { continue };
    if !(m.kind == "js" || m.kind == "json") || !u.starts_with("http") {
      continue;
    }
    let Some(text) = r1.obs["modules"][u.as_str()]["source"].as_str() else {
      continue;
    };
    let served_ok = r1.loads.iter().any(|l| {
      l.answer == "module"
        && l.final_url.as_deref() == Some(u.as_str())
        && l.served.as_ref().is_some_and(|b| {
          String::from_utf8_lossy(b).trim_start_matches('\u{feff}') == text
            || b.contains(&0) // transcoded content: C20 checks the decoding
        })
    });
    if !served_ok && !text.is_empty() {
      out.violation(
        "C05",
        "rejected-content-not-admitted",
        "module-source-not-from-a-verified-answer",
        format!("the source of {} is not the content of any request for it that the loader let through", u),
        ctx(json!({"url": u})),
      );
      return out;
    }
  }
  // (3) redirects of checksummed / in-package requests are rejected
  for l in &r1.loads {
    if l.answer != "redirect" {
      continue;
    }
    let in_pkg = nv_of(&l.id.url).is_some()
      || is_version_manifest(&l.id.url).is_some();
    if l.checksum.is_some() || in_pkg {
      let to = l.final_url.clone().unwrap_or_default();
      let followed = shape.redirects.get(&l.id.url) == Some(&to)
        && !world.lockfile.redirects.contains_key(&l.id.url);
      if followed {
        out.violation(
          "C05",
          "checksummed-redirect-rejected",
          "redirect-of-checksummed-url-followed",
          format!("{} carried a checksum (or lies in a package) and was redirected to {}; the graph followed the redirect", l.id.label(), to),
          ctx(json!({"request": l.id.label()})),
        );
        return out;
      }
      out.count("probe.checksummed_redirect_rejected", 1);
    }
  }
  // (4) set_remote_checksum
  let mut set_remote: BTreeMap<String, Vec<String>> = BTreeMap::new();
  for (seq, c) in &r1.locker_calls {
    if let LockerCall::SetRemote(u, c, had) = c {
      set_remote.entry(u.clone()).or_default().push(c.clone());
      let bad = if *had || initial_remote.contains_key(u) {
        Some("overwrites-existing-entry")
      } else if !(u.starts_with("http://") || u.starts_with("https://")) {
        Some("not-a-remote-module")
      } else if nv_of(u).is_some() {
        Some("inside-the-registry")
      } else {
        match shape.slots.get(u) {
          Some(SlotShape::Module(m))
            if matches!(
              m.mt,
              deno_media_type::MediaType::Dts
                | deno_media_type::MediaType::Dmts
                | deno_media_type::MediaType::Dcts
            ) =>
          {
            Some("declaration-module")
          }
          _ => None,
        }
      };
      if let Some(b) = bad {
        out.violation(
          "C05",
          "new-checksums-recorded",
          format!("set-remote-checksum:{}", b),
          format!("set_remote_checksum({}, {}) {}", u, c, b),
          ctx(json!({"url": u})),
        );
        return out;
      }
      // SHA-256 of exactly the bytes used
      let served_sums: BTreeSet<String> = r1
        .loads
        .iter()
        .filter(|l| {
          l.seq < *seq
            && l.answer == "module"
            && l.final_url.as_deref() == Some(u.as_str())
        })
        .filter_map(|l| l.served.as_ref().map(|b| sha256_hex(b)))
        .collect();
      if !served_sums.contains(c) {
        // (classified by the answers that preceded the call, like the sums;
        // a transcoded answer explains the mismatch whatever else was served)
        let preceding = |pred: &dyn Fn(&[u8]) -> bool| {
          r1.loads.iter().any(|l| {
            l.seq < *seq
              && l.final_url.as_deref() == Some(u.as_str())
              && l.served.as_ref().is_some_and(|b| pred(b))
          })
        };
        let transcoded =
          preceding(&|b| std::str::from_utf8(b).is_err() || b.contains(&0));
        let bom = preceding(&|b| b.starts_with(&[0xEF, 0xBB, 0xBF]));
        out.violation(
          "C05",
          "new-checksums-recorded",
          format!(
            "recorded-checksum-is-not-of-the-served-bytes{}",
            if transcoded {
              ":transcoded-content"
            } else if bom {
              ":utf8-bom"
            } else {
              ""
            }
          ),
          format!(
            "set_remote_checksum({}, {}) but the bytes served for it have checksum(s) {:?}",
            u, c, served_sums
          ),
          ctx(json!({"url": u})),
        );
        return out;
      }
    }
  }
  for (u, slot) in &shape.slots {
    let SlotShape::Module(m) = slot else { continue };
    let is_remote = u.starts_with("http://") || u.starts_with("https://");
    if !is_remote
      || nv_of(u).is_some()
      || !matches!(m.kind, "js" | "json" | "wasm")
      || matches!(
        m.mt,
        deno_media_type::MediaType::Dts
          | deno_media_type::MediaType::Dmts
          | deno_media_type::MediaType::Dcts
      )
      || initial_remote.contains_key(u)
      || u.starts_with(REGISTRY)
    {
      continue;
    }
    let n = set_remote.get(u).map(|v| v.len()).unwrap_or(0);
    if n != 1 {
      out.violation(
        "C05",
        "new-checksums-recorded",
        format!("new-remote-module-recorded-{}-times", n),
        format!("new remote module {} ({}) had set_remote_checksum called {} times", u, m.media_type, n),
        ctx(json!({"url": u})),
      );
      return out;
    }
  }
  // (5) set_pkg_manifest_checksum
  let mut pkg_sets: BTreeMap<String, BTreeSet<String>> = BTreeMap::new();
  for (seq, c) in &r1.locker_calls {
    if let LockerCall::SetPkg(nv, c, _had) = c {
      if initial_pkg.contains_key(nv) {
        out.violation(
          "C05",
          "new-checksums-recorded",
          "set-pkg-manifest-checksum:overwrites-lockfile-entry",
          format!("set_pkg_manifest_checksum({}, {}) although the lockfile already had {}", nv, c, initial_pkg[nv]),
          ctx(json!({"nv": nv})),
        );
        return out;
      }
      pkg_sets.entry(nv.clone()).or_default().insert(c.clone());
      let Some((name, v)) = nv.rsplit_once('@') else {
        continue;
      };
      let url = format!("{}{}/{}_meta.json", REGISTRY, name, v);
      let served: Vec<&LoadRecord> = r1
        .loads
        .iter()
        .filter(|l| l.id.url == url && l.seq < *seq && l.answer == "module")
        .collect();
      let ok = served.iter().any(|l| {
        let Some(b) = &l.served else { return false };
        let lc = serde_json::from_slice::<Value>(b)
          .ok()
          .and_then(|m| m["lockfileChecksum"].as_str().map(|s| s.to_string()));
        match lc {
          Some(lc) => lc == *c,
          None => sha256_hex(b) == *c,
        }
      });
      if !ok {
        out.violation(
          "C05",
          "new-checksums-recorded",
          "recorded-manifest-checksum-wrong",
          format!("set_pkg_manifest_checksum({}, {}) is neither the manifest's lockfileChecksum nor the SHA-256 of the manifest bytes served", nv, c),
          ctx(json!({"nv": nv})),
        );
        return out;
      }
    }
  }
  for (nv, vals) in &pkg_sets {
    if vals.len() > 1 {
      out.violation(
        "C05",
        "new-checksums-recorded",
        "manifest-checksum-recorded-with-different-values",
        format!("{} was recorded with {:?}", nv, vals),
        ctx(json!({"nv": nv})),
      );
      return out;
    }
  }
  // (5b) completeness: every version manifest that was delivered intact to a
  // real request (not the cached-version probe) and that the lockfile did not
  // know is handed to the lockfile interface - whatever happens to the files
  // loaded afterwards
  for l in &r1.loads {
    let Some(nv) = is_version_manifest(&l.id.url) else { continue };
    if l.answer != "module"
      || l.id.cs == CS_ONLY
      || l.seq < restart_seq
      || initial_pkg.contains_key(&nv)
    {
      continue;
    }
    let Some(b) = &l.served else { continue };
    // only manifests the builder can read
    let readable = serde_json::from_slice::<Value>(b).is_ok_and(|m| {
      m.is_object()
        && (m["exports"].is_string() || m["exports"].is_object())
        && (m.get("manifest").is_none() || m["manifest"].is_object())
    });
    if !readable {
      continue;
    }
    out.count("probe.new_version_manifest_delivered", 1);
    if !pkg_sets.contains_key(&nv) {
      out.violation(
        "C05",
        "new-checksums-recorded",
        "new-version-manifest-not-recorded",
        format!(
          "the version manifest of {} was delivered ({}) and the lockfile had no entry for it, yet set_pkg_manifest_checksum was never called for it",
          nv,
          l.id.label()
        ),
        ctx(json!({"nv": nv})),
      );
      return out;
    }
  }
  out.count("checksums_presented", presented);
  out.count("remote_checksums_recorded", set_remote.len() as u64);
  out.count("manifest_checksums_recorded", pkg_sets.len() as u64);
  // (6) record-then-verify: the unchanged world with the lockfile just written
  let mut world2 = world.clone();
  world2.lockfile.remote = r1.locker.remote.clone();
  world2.lockfile.pkg_manifests = r1.locker.pkg.clone();
  let sched2 = SchedOpts::draw(tape);
  let t0 = std::mem::replace(tape, Tape::replay(Default::default()));
  let (r2, t2) = match do_build(&world2, &sem, &sched2, t0, hash_seed) {
    Ok(x) => x,
    Err(e) => {
      out.harness_error = Some(format!("run thread panicked: {}", e));
      return out;
    }
  };
  *tape = t2;
  add_summary(&mut out, &r2.summary, &sched2);
  if r2.end == RunEnd::Done {
    // entries that ended as integrity errors (a failure that the
    // cache-bypassing retry cured is not one)
    let integrity = |r: &RunOut| -> BTreeSet<String> {
      r.shape
        .as_ref()
        .map(|s| {
          s.slots
            .iter()
            .filter(|(_, v)| {
              matches!(v, SlotShape::Err { text, .. } if text.contains("Integrity check failed"))
            })
            .map(|(k, _)| k.clone())
            .collect()
        })
        .unwrap_or_default()
    };
    let i1 = integrity(&r1);
    let i2 = integrity(&r2);
    // a final specifier that some alias (a url answered with it as final
    // specifier) serves with other bytes than it serves itself is not one
    // resource with one content: which bytes the first build used - and
    // recorded - depends on which request came first, and the second build may
    // legitimately meet the other ones
    let divergent: BTreeSet<String> = {
      let mut d = BTreeSet::new();
      let tiers: Vec<Vec<(&String, &Entry)>> = vec![
        world.remote.iter().collect(),
        world
          .cache
          .iter()
          .filter_map(|(k, v)| v.as_ref().map(|e| (k, e)))
          .collect(),
      ];
      for tier in &tiers {
        for (_, e) in tier {
          if let Entry::Module {
            bytes,
            final_url: Some(to),
            ..
          } = e
          {
            let own: Vec<&Vec<u8>> = tiers
              .iter()
              .flat_map(|t| t.iter())
              .filter(|(k, _)| *k == to)
              .filter_map(|(_, e)| match e {
                Entry::Module { bytes, final_url: None, .. } => Some(bytes),
                _ => None,
              })
              .collect();
            if own.iter().any(|b| *b != bytes) {
              d.insert(to.clone());
            }
          }
        }
      }
      d
    };
    if let Some(u) = i2.difference(&i1).filter(|u| !divergent.contains(*u)).next() {
      let newly_recorded = !initial_remote.contains_key(u)
        && r1.locker.remote.contains_key(u);
      out.violation(
        "C05",
        "record-then-verify",
        format!(
          "second-run-integrity-failure{}",
          if newly_recorded {
            ":on-checksum-recorded-by-first-run"
          } else {
            ""
          }
        ),
        format!(
          "building the unchanged world again with the lockfile the first build wrote fails verification of {} (recorded {:?})",
          u,
          r1.locker.remote.get(u)
        ),
        ctx(json!({"url": u})),
      );
      return out;
    }
    let strip = |v: &Value| {
      let mut v = v.clone();
      if let Some(o) = v.as_object_mut() {
        o.remove("lockfile");
      }
      v
    };
    // (with a divergent alias the two builds may legitimately use different
    // bytes for one final specifier, see above)
    out.count("record_then_verify_skipped_divergent_alias", !divergent.is_empty() as u64);
    if let Some((path, a, b)) = first_diff(&strip(&r1.obs), &strip(&r2.obs))
      .filter(|_| divergent.is_empty())
    {
      out.violation(
        "C05",
        "record-then-verify",
        format!("second-run-graph-differs:{}", classify_path(&path)),
        format!(
          "the second build (lockfile written by the first) differs at {}: {} vs {}",
          path,
          truncate(&a.to_string(), 160),
          truncate(&b.to_string(), 160)
        ),
        ctx(json!({"path": path})),
      );
      return out;
    }
    out.count("probe.record_then_verify_checked", 1);
  }
  if presented + set_remote.len() as u64 + pkg_sets.len() as u64 > 0 {
    out.nontrivial_key = Some(world_hash(&world));
  }
  out.sample = Some(json!({
    "roots": world.roots,
    "lockfile_remote_entries": world.lockfile.remote.len(),
    "lockfile_manifest_entries": world.lockfile.pkg_manifests.len(),
    "checksums_presented": presented,
    "recorded": set_remote.keys().collect::<Vec<_>>(),
  }));
  out
}
