//! C07 — JSR specifiers map to registry URLs through the manifest, with
//! bookkeeping (package table, per-package dependencies, URL <-> name@version).

use std::collections::BTreeMap;
use std::collections::BTreeSet;

use deno_graph::ModuleSpecifier;
use deno_graph::source::recommended_registry_package_url;
use deno_graph::source::recommended_registry_package_url_to_nv;
use deno_semver::package::PackageNv;
use serde_json::Value;
use serde_json::json;

use crate::checks::common::*;
use crate::checks::worlds::RegGenCfg;
use crate::checks::worlds::gen_registry_world;
use crate::exec::RunEnd;
use crate::framework::CaseOutcome;
use crate::framework::CaseParams;
use crate::framework::CheckSpec;
use crate::framework::Tier;
use crate::run::SchedOpts;
use crate::run::SemOpts;
use crate::tape::Stream;
use crate::tape::Tape;
use crate::world::*;

pub fn spec() -> CheckSpec {
  CheckSpec {
    id: "C07",
    level: "exploration",
    rule: "case = generated registry (1-3 packages among @a/b, @a/bc, @c/d, @c/e with colliding name prefixes; versions incl. 1.2.0 vs 1.2.0-pre; exports as string or map; files importing one another relatively, by jsr:, npm: and https registry URL; embedded module info or not; cached or not) + a local program importing jsr: specifiers with and without sub paths, built under a drawn schedule. Registry model -> graph: every jsr: specifier that resolved is redirected to registry_url + name/version/ + exports[export name] for the version in the package table; a missing export is an unknown-export error listing exactly the manifest's exports; package_exports(nv) is the set of exports used; packages_with_deps(nv) equals, as a set, the jsr:/npm: requirements imported by the modules of nv that are in the graph; URL <-> name@version conversion round-trips for every nv and attributes every URL seen in the run to the package whose directory contains it and to no other. distinct+non-trivial = distinct worlds with at least one resolved jsr: specifier",
    assumptions: vec![
      "which version a requirement selects is C06's subject; here the package table's own mapping is taken as given",
      "per-package dependencies are read from the structured description of the package files (the generator's items), not from source text",
    ],
    real_components: "deno_graph builder (resolve_pending_jsr_specifiers, mark_jsr_dep/mark_npm_dep, existing-slot short-circuit), JsrPackageVersionInfo::export(s), PackageSpecifiers, recommended_registry_package_url(_to_nv)",
    stub_components: "Loader serving the simulated registry; other seams simulated",
    quick_cases: 8000,
    thorough_cases: 400000,
    run_case,
    systematic: |_| 0,
  }
}

fn parse_jsr_spec(spec: &str) -> Option<(String, String, String)> {
  // jsr:@scope/name[@req][/sub] -> (name, req text or "*", export name)
  let rest = spec.strip_prefix("jsr:")?;
  let rest = rest.strip_prefix('/').unwrap_or(rest);
  let mut it = rest.splitn(3, '/');
  let scope = it.next()?;
  let name_req = it.next()?;
  let sub = it.next();
  let (pname, req) = match name_req.find('@') {
    Some(i) => (&name_req[..i], &name_req[i + 1..]),
    None => (name_req, "*"),
  };
  let export = match sub {
    Some(s) if !s.is_empty() => format!("./{}", s),
    _ => ".".to_string(),
  };
  Some((format!("{}/{}", scope, pname), req.to_string(), export))
}

pub fn run_case(tape: &mut Tape, _tier: Tier, _p: &CaseParams) -> CaseOutcome {
  let mut out = CaseOutcome::default();
  let mut cfg = RegGenCfg::full();
  cfg.allow_manifest_faults = tape.draw(Stream::World, 4) == 3;
  let world = gen_registry_world(tape, &cfg);
  let mut sem = SemOpts::default();
  sem.kind = tape.draw(Stream::Options, 3) as u8;
  sem.with_locker = world.lockfile.present;
  sem.skip_dynamic_deps = tape.draw(Stream::Options, 6) == 5;
  let sched = SchedOpts::draw(tape);
  let hash_seed = draw_hash_seed(tape);
  let t0 = std::mem::replace(tape, Tape::replay(Default::default()));
  let res = build_fresh(
    &world,
    &FaultPlan::default(),
    &sem,
    &sched,
    t0,
    hash_seed,
    false,
    |session, report, _| {
      let g = &session.graph;
      let exports: BTreeMap<String, BTreeMap<String, String>> = g
        .packages
        .packages_with_deps()
        .map(|(nv, _)| {
          (
            nv.to_string(),
            g.packages.package_exports(nv).cloned().unwrap_or_default(),
          )
        })
        .collect();
      let deps: BTreeMap<String, BTreeSet<String>> = g
        .packages
        .packages_with_deps()
        .map(|(nv, d)| {
          (
            nv.to_string(),
            d.map(|r| {
              format!(
                "{}:{}",
                if r.kind == deno_semver::package::PackageKind::Jsr {
                  "jsr"
                } else {
                  "npm"
                },
                r.req.to_string_normalized()
              )
            })
            .collect(),
          )
        })
        .collect();
      let urls: BTreeSet<String> =
        report.loads.iter().map(|l| l.id.url.clone()).collect();
      // version manifests that were not delivered intact
      let failed_manifests: BTreeSet<String> = report
        .loads
        .iter()
        .filter(|l| l.id.url.ends_with("_meta.json") && l.answer != "module")
        .map(|l| l.id.url.clone())
        .collect();
      let resolves: Vec<(String, String)> = report
        .reports
        .iter()
        .filter_map(|(_, e)| match e {
          crate::seams::ReportEvent::OnResolve(a, b) => {
            Some((a.clone(), b.clone()))
          }
          _ => None,
        })
        .collect();
      // (url, checksum presented) of every request for a registry file
      let presented: Vec<(String, Option<String>)> = report
        .loads
        .iter()
        .filter(|l| l.id.url.starts_with(REGISTRY) && !l.id.url.ends_with("meta.json"))
        .map(|l| (l.id.url.clone(), l.checksum.clone()))
        .collect();
      (exports, deps, urls, failed_manifests, resolves, presented)
    },
  );
  let (built, t1) = match res {
    Ok(x) => x,
    Err(e) => {
      out.harness_error = Some(format!("run thread panicked: {}", e));
      return out;
    }
  };
  *tape = t1;
  add_summary(&mut out, &built.summary, &sched);
  if built.end != RunEnd::Done {
    out.count("abnormal_end", 1);
    return out;
  }
  let (pkg_exports, pkg_deps, urls, failed_manifests, resolves, presented) =
    built.extra;
  let ctx = |extra: Value| {
    json!({"what": extra, "sem": sem, "sched": sched, "hash_seed": hash_seed, "world": world.to_json()})
  };
  let empty = serde_json::Map::new();
  let slots = built.obs["slots"].as_object().unwrap_or(&empty);
  let redirects = built.obs["serialized"]["redirects"]
    .as_object()
    .unwrap_or(&empty);
  let mappings = built.obs["packages"]["mappings"].as_object().unwrap_or(&empty);
  let parse_req = |s: &str| deno_semver::package::PackageReq::from_str(s).ok();
  let reg_url = ModuleSpecifier::parse(REGISTRY).unwrap();
  let mut resolved_specs = 0u64;
  let mut used_exports: BTreeMap<String, BTreeMap<String, String>> =
    BTreeMap::new();
  // every jsr: specifier the graph knows (slot or redirect source)
  let jsr_specs: BTreeSet<&String> = slots
    .keys()
    .chain(redirects.keys())
    .filter(|k| k.starts_with("jsr:"))
    .collect();
  for spec in jsr_specs {
    let Some((name, req_txt, export)) = parse_jsr_spec(spec) else {
      continue;
    };
    let Some(req) = parse_req(&format!("{}@{}", name, req_txt)) else {
      continue;
    };
    // version the package table maps this requirement to
    let nv_s = mappings
      .iter()
      .find(|(k, _)| {
        parse_req(k).is_some_and(|x| x.cmp(&req) == std::cmp::Ordering::Equal)
      })
      .and_then(|(_, v)| v.as_str());
    let Some(nv_s) = nv_s else {
      // never resolved (package missing, not found, tag, ...): must be an error
      if redirects.contains_key(spec.as_str()) {
        out.violation(
          "C07",
          "redirect-through-manifest",
          "redirect-without-mapping",
          format!("{} is redirected to {} but the package table has no entry for its requirement", spec, redirects[spec.as_str()]),
          ctx(json!({"spec": spec})),
        );
        return out;
      }
      continue;
    };
    let version = &nv_s[name.len() + 1..];
    let pv = world
      .registry
      .packages
      .get(&name)
      .and_then(|p| p.versions.get(version));
    let Some(pv) = pv else {
      // version selected from a lockfile seed that the registry does not have
      continue;
    };
    if pv.manifest_missing
      || failed_manifests
        .contains(&format!("{}{}/{}_meta.json", REGISTRY, name, version))
    {
      // the statement presupposes the version's manifest; its failure modes
      // are C03's and C05's subject
      continue;
    }
    let exports: BTreeMap<String, String> = match &pv.exports {
      Exports::Single(s) => [(".".to_string(), s.clone())].into(),
      Exports::Map(m) => m.clone(),
    };
    match exports.get(&export) {
      Some(path) => {
        let expected = format!(
          "{}{}/{}/{}",
          REGISTRY,
          name,
          version,
          path.strip_prefix("./").unwrap_or(path)
        );
        match redirects.get(spec.as_str()).and_then(|v| v.as_str()) {
          Some(r) if r == expected => {
            resolved_specs += 1;
            used_exports
              .entry(nv_s.to_string())
              .or_default()
              .insert(export.clone(), path.clone());
          }
          other => {
            // the same requirement (possibly written differently, or with
            // another sub path) resolved more than once, to different
            // versions, because the set of selected versions grew in between
            let nvs_for_req: BTreeSet<&String> = resolves
              .iter()
              .filter(|(r, _)| {
                parse_req(r)
                  .is_some_and(|x| x.cmp(&req) == std::cmp::Ordering::Equal)
              })
              .map(|(_, nv)| nv)
              .collect();
            if nvs_for_req.len() > 1 {
              out.violation(
                "C07",
                "redirect-through-manifest",
                "same-requirement-selected-twice",
                format!(
                  "requirement {}@{} was resolved to {:?} at different times; {} redirects to {:?} while the package table maps the requirement to {}",
                  name, req_txt, nvs_for_req, spec, other, nv_s
                ),
                ctx(json!({"spec": spec})),
              );
              return out;
            }
            out.violation(
              "C07",
              "redirect-through-manifest",
              "redirect-target-wrong",
              format!(
                "{} should redirect to {} (export {:?} of {}), graph has {:?}",
                spec, expected, export, nv_s, other
              ),
              ctx(json!({"spec": spec, "expected": expected})),
            );
            return out;
          }
        }
      }
      None => {
        let err = slots
          .get(spec.as_str())
          .and_then(|s| s.get("error"))
          .and_then(|e| e.as_str())
          .unwrap_or("");
        let listed: BTreeSet<String> = err
          .lines()
          .filter_map(|l| l.strip_prefix(" * "))
          .map(|s| s.to_string())
          .collect();
        let expected: BTreeSet<String> = exports.keys().cloned().collect();
        if !err.starts_with(&format!("Unknown export '{}' for '{}'", export, nv_s))
          || listed != expected
        {
          let nvs_for_req: BTreeSet<&String> = resolves
            .iter()
            .filter(|(r, _)| {
              parse_req(r)
                .is_some_and(|x| x.cmp(&req) == std::cmp::Ordering::Equal)
            })
            .map(|(_, nv)| nv)
            .collect();
          out.violation(
            "C07",
            "unknown-export-error",
            if nvs_for_req.len() > 1 {
              "same-requirement-selected-twice:unknown-export"
            } else {
              "unknown-export-error-wrong"
            },
            format!(
              "{}: the manifest of {} has no export {:?} (exports {:?}); entry is {:?}",
              spec, nv_s, export, expected, slots.get(spec.as_str())
            ),
            ctx(json!({"spec": spec})),
          );
          return out;
        }
        out.count("probe.unknown_export_error", 1);
      }
    }
  }
  // attribution: a registry file is checked against the manifest of the
  // package version its URL names (path segments), never against another
  // version's whose URL happens to be a string prefix
  for (url, sum) in &presented {
    let Some(sum) = sum else { continue };
    let Some(rest) = url.strip_prefix(REGISTRY) else { continue };
    let mut it = rest.splitn(4, '/');
    let (Some(scope), Some(pname), Some(version), Some(path)) =
      (it.next(), it.next(), it.next(), it.next())
    else {
      continue;
    };
    let manifest_url =
      format!("{}{}/{}/{}_meta.json", REGISTRY, scope, pname, version);
    let Some(Entry::Module { bytes, .. }) = world.remote.get(&manifest_url) else {
      continue;
    };
    let Ok(mv) = serde_json::from_slice::<Value>(bytes) else { continue };
    let expected = match mv["manifest"][format!("/{}", path)]["checksum"].as_str() {
      Some(c) => c.strip_prefix("sha256-").unwrap_or(c).to_string(),
      None => "package-manifest-missing-checksum".to_string(),
    };
    out.count("probe.registry_file_checksum_attributed", 1);
    if *sum != expected
      && mv["manifest"][format!("/{}", path)]["checksum"]
        .as_str()
        .is_none_or(|c| c.starts_with("sha256-"))
    {
      out.violation(
        "C07",
        "url-attributed-to-its-own-package",
        "registry-file-checked-against-another-version",
        format!(
          "{} belongs to {}/{}@{} whose manifest gives {} for /{}; the build presented {}",
          url, scope, pname, version, expected, path, sum
        ),
        ctx(json!({"url": url})),
      );
      return out;
    }
  }
  // package_exports(nv) == exports used
  for (nv, used) in &used_exports {
    let got = pkg_exports.get(nv).cloned().unwrap_or_default();
    if &got != used {
      out.violation(
        "C07",
        "package-exports-bookkeeping",
        "package-exports-differ",
        format!("package_exports({}) = {:?}, exports used = {:?}", nv, got, used),
        ctx(json!({"nv": nv})),
      );
      return out;
    }
  }
  for (nv, got) in &pkg_exports {
    if !got.is_empty() && !used_exports.contains_key(nv) {
      // the version was selected for a requirement that a later resolution
      // of the same requirement mapped to another version (table entry
      // overwritten): the known double selection, seen from this side
      let twice = resolves.iter().filter(|(_, v)| v == nv).any(|(r, _)| {
        let Some(req) = parse_req(r) else { return false };
        resolves
          .iter()
          .filter(|(r2, _)| {
            parse_req(r2)
              .is_some_and(|x| x.cmp(&req) == std::cmp::Ordering::Equal)
          })
          .map(|(_, v)| v)
          .collect::<BTreeSet<_>>()
          .len()
          > 1
      });
      out.violation(
        "C07",
        "package-exports-bookkeeping",
        if twice {
          "same-requirement-selected-twice:package-exports"
        } else {
          "package-exports-unexpected"
        },
        format!("package_exports({}) = {:?} but no jsr: specifier used an export of it", nv, got),
        ctx(json!({"nv": nv})),
      );
      return out;
    }
  }
  // packages_with_deps(nv) == requirements imported by nv's modules in the graph
  let modules = built.obs["modules"].as_object().unwrap_or(&empty);
  let mut expected_deps: BTreeMap<String, BTreeSet<String>> = BTreeMap::new();
  for (url, m) in modules {
    let Some(rest) = url.strip_prefix(REGISTRY) else {
      continue;
    };
    let mut it = rest.splitn(4, '/');
    let (Some(scope), Some(name), Some(version)) =
      (it.next(), it.next(), it.next())
    else {
      continue;
    };
    if deno_semver::Version::parse_standard(version).is_err() {
      continue;
    }
    let nv = format!("{}/{}@{}", scope, name, version);
    let Some(desc) = world.descs.get(url) else {
      continue;
    };
    // only modules whose dependencies were analysed (js / wasm with deps)
    if m["kind"] != "js" && m["kind"] != "wasm" {
      continue;
    }
    let graph_keys: BTreeSet<&str> = m["deps"]
      .as_array()
      .map(|a| a.iter().filter_map(|d| d["key"].as_str()).collect())
      .unwrap_or_default();
    for it in &desc.items {
      // an item the graph did not record (type-only import in a code-only
      // graph) was not seen by the builder either
      if !graph_keys.contains(it.spec.as_str()) {
        continue;
      }
      if sem.skip_dynamic_deps && it.form.is_dynamic() {
        // a skipped dynamic dependency is never loaded, hence never marked
        let static_too = desc
          .items
          .iter()
          .any(|o| o.spec == it.spec && !o.form.is_dynamic() && !o.form.is_ts_type());
        if !static_too {
          continue;
        }
      }
      let kind = if it.spec.starts_with("jsr:") {
        "jsr"
      } else if it.spec.starts_with("npm:") {
        "npm"
      } else {
        continue;
      };
      let rest = &it.spec[4..];
      let rest = rest.strip_prefix('/').unwrap_or(rest);
      // requirement = first two path segments
      let mut segs = rest.splitn(3, '/');
      let (a, b) = (segs.next().unwrap_or(""), segs.next());
      let req_txt = if a.starts_with('@') {
        match b {
          Some(b) => format!("{}/{}", a, b),
          None => continue,
        }
      } else {
        a.to_string()
      };
      let Some(req) = parse_req(&req_txt) else {
        continue;
      };
      if kind == "jsr" {
        if let deno_semver::RangeSetOrTag::Tag(_) = req.version_req.inner() {
          // tags are rejected before anything is recorded ... but the
          // dependency mark happens after validation only
          continue;
        }
      }
      // requirements are compared by range (`@c/d@1` and `@c/d@^1` are one)
      expected_deps
        .entry(nv.clone())
        .or_default()
        .insert(format!("{}:{}", kind, req.to_string_normalized()));
    }
  }
  // upper bound: what any file of the package imports in the world (a file
  // whose module information was visited and whose content then failed to
  // load is an error entry, but its imports were seen)
  let mut world_deps: BTreeMap<String, BTreeSet<String>> = BTreeMap::new();
  for (url, desc) in &world.descs {
    let Some(rest) = url.strip_prefix(REGISTRY) else {
      continue;
    };
    let mut it = rest.splitn(4, '/');
    let (Some(scope), Some(name), Some(version)) =
      (it.next(), it.next(), it.next())
    else {
      continue;
    };
    let nv = format!("{}/{}@{}", scope, name, version);
    for item in &desc.items {
      let kind = if item.spec.starts_with("jsr:") {
        "jsr"
      } else if item.spec.starts_with("npm:") {
        "npm"
      } else {
        continue;
      };
      let rest = &item.spec[4..];
      let rest = rest.strip_prefix('/').unwrap_or(rest);
      let mut segs = rest.splitn(3, '/');
      let (a, b) = (segs.next().unwrap_or(""), segs.next());
      let req_txt = if a.starts_with('@') {
        match b {
          Some(b) => format!("{}/{}", a, b),
          None => continue,
        }
      } else {
        a.to_string()
      };
      if let Some(req) = parse_req(&req_txt) {
        world_deps
          .entry(nv.clone())
          .or_default()
          .insert(format!("{}:{}", kind, req.to_string_normalized()));
      }
    }
  }
  for (nv, exp) in &expected_deps {
    let got = pkg_deps.get(nv).cloned().unwrap_or_default();
    let upper = world_deps.get(nv).cloned().unwrap_or_default();
    if !exp.is_subset(&got) || !got.is_subset(&upper) {
      let missing: Vec<_> = exp.difference(&got).collect();
      let extra: Vec<_> = got.difference(&upper).collect();
      out.violation(
        "C07",
        "package-dependency-bookkeeping",
        format!(
          "package-deps-differ:{}{}",
          if missing.is_empty() { "" } else { "missing" },
          if extra.is_empty() { "" } else { "extra" }
        ),
        format!(
          "packages_with_deps({}) = {:?}; the package's modules in the graph import {:?} (missing {:?}, extra {:?})",
          nv, got, exp, missing, extra
        ),
        ctx(json!({"nv": nv})),
      );
      return out;
    }
  }
  for (nv, got) in &pkg_deps {
    let upper = world_deps.get(nv).cloned().unwrap_or_default();
    if !got.is_subset(&upper) {
      out.violation(
        "C07",
        "package-dependency-bookkeeping",
        "package-deps-differ:extra",
        format!("packages_with_deps({}) = {:?} but no module of it in the graph imports a jsr:/npm: requirement", nv, got),
        ctx(json!({"nv": nv})),
      );
      return out;
    }
  }
  // URL <-> name@version
  let mut nvs: Vec<PackageNv> = vec![];
  for (name, p) in &world.registry.packages {
    for v in p.versions.keys() {
      if let Ok(nv) = PackageNv::from_str(&format!("{}@{}", name, v)) {
        nvs.push(nv);
      }
    }
  }
  for nv in &nvs {
    let u = recommended_registry_package_url(&reg_url, nv);
    if recommended_registry_package_url_to_nv(&reg_url, &u).as_ref() != Some(nv) {
      out.violation(
        "C07",
        "url-nv-round-trip",
        "package-url-does-not-round-trip",
        format!("package_url({}) = {} maps back to {:?}", nv, u, recommended_registry_package_url_to_nv(&reg_url, &u)),
        ctx(json!({"nv": nv.to_string()})),
      );
      return out;
    }
  }
  // urls that merely look like a package's directory (other scheme, port,
  // host suffix, path prefix) belong to no package
  let mut probes: BTreeSet<String> = urls.clone();
  for nv in &nvs {
    let tail = format!("{}/{}/mod.ts", nv.name, nv.version);
    for p in [
      format!("http://jsr.io/{}", tail),
      format!("https://jsr.io:8443/{}", tail),
      format!("https://jsr.io.evil.test/{}", tail),
      format!("https://a.test/{}", tail),
      format!("https://jsr.io/x/{}", tail),
      format!("https://user@jsr.io/{}", tail),
      format!("{}{}/{}", REGISTRY, nv.name, nv.version),
      format!("{}{}/{}-x/mod.ts", REGISTRY, nv.name, nv.version),
      format!("{}{}x/{}/mod.ts", REGISTRY, nv.name, nv.version),
      // version segments that a lenient version parser reads as this version
      format!("{}{}/v{}/mod.ts", REGISTRY, nv.name, nv.version),
      format!("{}{}/={}/mod.ts", REGISTRY, nv.name, nv.version),
      format!("{}{}/{}+build/mod.ts", REGISTRY, nv.name, nv.version),
    ] {
      probes.insert(p);
    }
  }
  out.count("url_attribution_probes", probes.len() as u64);
  for u in &probes {
    let Ok(url) = ModuleSpecifier::parse(u) else {
      continue;
    };
    let got = recommended_registry_package_url_to_nv(&reg_url, &url);
    // the package whose directory contains the url
    let expected = nvs.iter().find(|nv| {
      u.starts_with(&format!("{}{}/{}/", REGISTRY, nv.name, nv.version))
    });
    let ok = match (&got, expected) {
      (Some(g), Some(e)) => g == e,
      (None, None) => true,
      // a url under a version directory the registry does not list still
      // parses to that name@version - but only under the registry url
      (Some(g), None) => u.starts_with(&format!(
        "{}{}/{}/",
        REGISTRY, g.name, g.version
      )) || *u == format!("{}{}/{}", REGISTRY, g.name, g.version),
      (None, Some(_)) => false,
    };
    if !ok {
      out.violation(
        "C07",
        "url-attributed-to-containing-package",
        "url-attributed-to-wrong-package",
        format!("{} is attributed to {:?}, the containing package is {:?}", u, got, expected),
        ctx(json!({"url": u})),
      );
      return out;
    }
  }
  out.count("resolved_jsr_specifiers", resolved_specs);
  out.count("probe.package_with_recorded_deps", expected_deps.len() as u64);
  if resolved_specs > 0 {
    out.nontrivial_key = Some(world_hash(&world));
  }
  out.sample = Some(json!({
    "packages": world.registry.packages.iter().map(|(n, p)| (n.clone(), p.versions.keys().cloned().collect::<Vec<_>>())).collect::<BTreeMap<_, _>>(),
    "mappings": mappings,
    "kind": sem.kind,
  }));
  out
}
