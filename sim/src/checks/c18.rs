//! C18 — a graph segment is self-contained and equals a direct build of its
//! roots.

use std::collections::BTreeSet;

use deno_graph::CheckJsOption;
use deno_graph::ModuleSpecifier;
use deno_graph::WalkOptions;
use serde_json::Value;
use serde_json::json;

use crate::checks::c15::SaltedCheckJs;
use crate::checks::c15::all_walk_opts;
use crate::checks::c15::kind_of;
use crate::checks::c17::structure_diff;
use crate::checks::c17::structure_of;
use crate::checks::common::*;
use crate::exec::RunEnd;
use crate::framework::CaseOutcome;
use crate::framework::CaseParams;
use crate::framework::CheckSpec;
use crate::framework::Tier;
use crate::refwalk::err_key;
use crate::run::SchedOpts;
use crate::run::SemOpts;
use crate::shape::Shape;
use crate::shape::SlotShape;
use crate::shape::shape_of;
use crate::tape::Stream;
use crate::tape::Tape;
use crate::world::FaultPlan;
use crate::world::GenCfg;

pub fn spec() -> CheckSpec {
  CheckSpec {
    id: "C18",
    level: "exploration",
    rule: "case = generated world x graph kind, built under a drawn schedule; 3 segment root sets chosen among the modules of the graph (hash-selected; one is a subset of the original roots). (i) for every module contained in the segment and every dependency key: resolve_dependency (both prefer_types values), try_get and get on the resolved target answer as in the original; walk(R, opts).validate() agrees with the original for all 36 option sets. (ii) when R is not a subset of the original roots: the segment's entries, redirects and code edges equal those of a direct build of R (same world, kind and options, own schedule). distinct+non-trivial = distinct (world, root set) pairs where the segment is a proper sub-graph",
    assumptions: vec![
      "(ii) compares entries by module kind / error text without referrer; roots of the direct build are given as final (post-redirect) module specifiers of the original graph",
    ],
    real_components: "deno_graph builder, ModuleGraph::segment, walk, resolve_dependency",
    stub_components: "all seams simulated",
    quick_cases: 8000,
    thorough_cases: 120000,
    run_case,
    systematic: |_| 0,
  }
}

type Answers = Vec<(String, String, bool, Option<String>, String)>;

fn lookups(graph: &deno_graph::ModuleGraph, within: &Shape) -> Answers {
  let mut v = vec![];
  for (murl, slot) in &within.slots {
    let SlotShape::Module(m) = slot else { continue };
    let Ok(referrer) = ModuleSpecifier::parse(murl) else {
      continue;
    };
    for d in &m.deps {
      for prefer_types in [false, true] {
        let r = graph
          .resolve_dependency(&d.key, &referrer, prefer_types)
          .map(|u| u.to_string());
        let tg = match d
          .code
          .ok()
          .or(d.typ.ok())
          .and_then(|t| ModuleSpecifier::parse(t).ok())
        {
          Some(t) => match graph.try_get(&t) {
            Ok(Some(m)) => format!("module:{}", m.specifier()),
            Ok(None) => "none".into(),
            Err(e) => format!("error:{}", e),
          },
          None => "-".into(),
        };
        v.push((murl.clone(), d.key.clone(), prefer_types, r, tg));
      }
    }
  }
  v
}

pub fn run_case(tape: &mut Tape, _tier: Tier, _p: &CaseParams) -> CaseOutcome {
  let mut out = CaseOutcome::default();
  let mut cfg = GenCfg::basic();
  cfg.mixed_attrs = false;
  let mut world = crate::checks::worlds::gen_any_world(tape, &cfg);
  let mut sem = SemOpts::draw(tape);
  sem.with_locker = false;
  // whether a chain at the redirect limit is cut depends on which edge met it
  // first (a recorded redirect is not counted again): keep the limit away
  // from the generated chain lengths
  sem.max_redirects = 10;
  crate::checks::worlds::strip_lockfile(&mut world);
  if sem.kind == 1 {
    // configured imports are type imports; an embedder does not give them to
    // a code-only graph (the builder would load them all the same, and a
    // code-only segment walk cannot reach them)
    world.imports.clear();
  }
  // a direct build follows dynamic edges; so does segment()
  sem.skip_dynamic_deps = false;
  let salt = tape.draw(Stream::Options, u32::MAX) as u64;
  let sched = SchedOpts::draw(tape);
  let hash_seed = draw_hash_seed(tape);
  let t0 = std::mem::replace(tape, Tape::replay(Default::default()));
  let res = build_fresh(
    &world,
    &FaultPlan::default(),
    &sem,
    &sched,
    t0,
    hash_seed,
    false,
    move |session, report, _| {
      if report.end != RunEnd::Done {
        return None;
      }
      let g = &session.graph;
      let gshape = shape_of(g);
      let modules: Vec<&String> = gshape
        .slots
        .iter()
        // entries loaded as assets (external, no content) are not modules one
        // could have built from
        .filter(|(_, s)| matches!(s, SlotShape::Module(m) if m.kind != "external"))
        .map(|(k, _)| k)
        .collect();
      let mut results = vec![];
      let custom = SaltedCheckJs(salt);
      for i in 0..3u64 {
        let roots: Vec<String> = if i == 0 {
          // subset of the original roots (clone shortcut)
          gshape.roots.iter().take(1).cloned().collect()
        } else {
          let s: BTreeSet<String> = modules
            .iter()
            .filter(|u| crate::rng::hash_str(salt ^ (i * 131), u) % 3 == 0)
            .map(|u| (*u).clone())
            .collect();
          s.into_iter().collect()
        };
        if roots.is_empty() {
          continue;
        }
        let root_urls: Vec<ModuleSpecifier> = roots
          .iter()
          .filter_map(|r| ModuleSpecifier::parse(r).ok())
          .collect();
        let seg = g.segment(&root_urls);
        let sshape = shape_of(&seg);
        // (i) lookups agree for everything contained in the segment
        let in_seg = lookups(&seg, &sshape);
        let in_orig = lookups(g, &sshape);
        let mut violation: Option<(String, String)> = None;
        if in_seg != in_orig {
          let d = in_seg
            .iter()
            .zip(in_orig.iter())
            .find(|(a, b)| a != b)
            .map(|(a, b)| format!("segment {:?} vs original {:?}", a, b))
            .unwrap_or_else(|| "different number of lookups".into());
          violation = Some(("segment-lookup-differs".into(), d));
        }
        if violation.is_none() {
          for o in all_walk_opts(salt) {
            let check_js = match o.check_js {
              0 => CheckJsOption::True,
              1 => CheckJsOption::False,
              _ => CheckJsOption::Custom(&custom),
            };
            let mk = || WalkOptions {
              check_js,
              follow_dynamic: o.follow_dynamic,
              kind: kind_of(o.kind),
              prefer_fast_check_graph: o.prefer_fast_check,
            };
            let a = seg
              .walk(root_urls.iter(), mk())
              .validate()
              .map_err(|e| err_key(&e));
            let b = g
              .walk(root_urls.iter(), mk())
              .validate()
              .map_err(|e| err_key(&e));
            // graph.imports are seeded into every walk of both graphs
            if a.is_ok() != b.is_ok() {
              violation = Some((
                format!("segment-validate-differs:kind{}", o.kind),
                format!(
                  "walk({:?}).validate(): segment {:?} vs original {:?}",
                  o, a, b
                ),
              ));
              break;
            }
          }
        }
        let is_subset = roots.iter().all(|r| gshape.roots.contains(r));
        results.push((roots, sshape, is_subset, violation));
      }
      let mut root_like = gshape.roots.clone();
      for r in &gshape.roots {
        if let Some(f) = gshape.follow(r) {
          root_like.push(f.to_string());
        }
      }
      Some((gshape.slots.len(), results, root_like))
    },
  );
  let (built, t1) = match res {
    Ok(x) => x,
    Err(e) => {
      out.harness_error = Some(format!("run thread panicked: {}", e));
      return out;
    }
  };
  *tape = t1;
  add_summary(&mut out, &built.summary, &sched);
  let Some((n_entries, results, orig_roots)) = built.extra else {
    out.count("abnormal_end", 1);
    return out;
  };
  let wh = world_hash(&world);
  let ctx = |extra: Value| {
    json!({"what": extra, "sem": sem, "sched": sched, "hash_seed": hash_seed, "world": world.to_json()})
  };
  for (roots, sshape, is_subset, violation) in results {
    out.count("segments", 1);
    if let Some((sig, msg)) = violation {
      out.violation(
        "C18",
        "segment-self-contained",
        sig,
        format!("segment at {:?}: {}", roots, msg),
        ctx(json!({"segment_roots": roots})),
      );
      return out;
    }
    if is_subset {
      continue;
    }
    // (ii) direct build of the same roots
    let mut w2 = world.clone();
    w2.roots = roots.clone();
    let sched2 = SchedOpts::draw(tape);
    let h2 = draw_hash_seed(tape);
    let t0 = std::mem::replace(tape, Tape::replay(Default::default()));
    let r2 = build_fresh(
      &w2,
      &FaultPlan::default(),
      &sem,
      &sched2,
      t0,
      h2,
      false,
      |session, report, _| {
        if report.end != RunEnd::Done {
          None
        } else {
          Some(shape_of(&session.graph))
        }
      },
    );
    let (b2, t2) = match r2 {
      Ok(x) => x,
      Err(e) => {
        out.harness_error = Some(format!("run thread panicked: {}", e));
        return out;
      }
    };
    *tape = t2;
    add_summary(&mut out, &b2.summary, &sched2);
    let Some(dshape) = b2.extra else {
      out.count("abnormal_end", 1);
      continue;
    };
    out.count("direct_builds", 1);
    // jsr requirements are resolved in visit order against the versions the
    // graph already selected; a different root set can select differently
    if let (Some(mo), Some(md)) = (
      built.obs["packages"]["mappings"].as_object(),
      b2.obs["packages"]["mappings"].as_object(),
    ) {
      if let Some((req, nv)) = md.iter().find(|(req, nv)| {
        mo.get(*req).is_some_and(|x| x != *nv)
      }) {
        out.violation(
          "C18",
          "segment-equals-direct-build",
          "segment-vs-direct:jsr-version-selection-differs",
          format!(
            "requirement {} resolved to {} in the original graph (kept by the segment) but to {} in a direct build of {:?}",
            req, mo[req], nv, roots
          ),
          ctx(json!({"segment_roots": roots, "req": req})),
        );
        return out;
      }
    }
    if let Some((spec, to, td)) = jsr_redirect_difference(&built.obs, &b2.obs) {
      out.violation(
        "C18",
        "segment-equals-direct-build",
        "segment-vs-direct:jsr-version-selection-differs",
        format!(
          "{} redirects to {} in the original graph (kept by the segment) and to {} in a direct build of {:?}",
          spec, to, td, roots
        ),
        ctx(json!({"segment_roots": roots, "spec": spec})),
      );
      return out;
    }
    let a = structure_of(&sshape);
    // entries of the direct build that nothing reaches (their importer turned
    // into an error after its dependencies were visited) are C01's business
    let reach = crate::checks::c17::reachable_all(&dshape);
    let mut b = structure_of(&dshape);
    let before = b.entries.len();
    b.entries.retain(|k, _| reach.contains(k));
    b.code_edges.retain(|k, _| reach.contains(k));
    b.redirects.retain(|k, _| reach.contains(k));
    out.count("direct_build_orphans_ignored", (before - b.entries.len()) as u64);
    if let Some((class, what, key)) = structure_diff(&a, &b) {
      let class = if class.starts_with("entry-differs")
        && key
          .as_ref()
          .is_some_and(|k| crate::checks::worlds::context_sensitive(&world, k))
      {
        format!("first-visitor-context:{}", class)
      } else {
        class
      };
      // an entry that was a root of the original graph was loaded with the
      // root defaults (unknown media type taken as JavaScript, attribute-less
      // JSON accepted); a direct build of other roots meets it as a dependency
      let was_root = orig_roots
        .iter()
        .any(|r| what.starts_with(&format!("{}:", r)) || what.starts_with(&format!("{} =", r)));
      let class = if was_root {
        format!("was-root-in-original:{}", class)
      } else {
        class
      };
      out.violation(
        "C18",
        "segment-equals-direct-build",
        format!("segment-vs-direct:{}", class),
        format!(
          "segment at {:?} vs direct build of those roots: {}",
          roots, what
        ),
        ctx(json!({"segment_roots": roots, "class": class, "what": what})),
      );
      return out;
    }
    if sshape.slots.len() < n_entries {
      out.nontrivial_key = Some(crate::rng::mix(
        wh,
        crate::rng::hash_str(5, &roots.join(",")),
      ));
    }
  }
  out.sample = Some(json!({"roots": world.roots, "entries": n_entries, "kind": sem.kind}));
  out
}
