//! C13 — module information survives serialisation; the manifest shortcut
//! equals parsing. Differential simulation between renderings of one
//! registry (no embedded info / moduleGraph2 / moduleGraph2 round-tripped /
//! moduleGraph1), crossed with cache states and completion orders.

use serde_json::Value;
use serde_json::json;

use crate::checks::c04::truncate;
use crate::checks::common::*;
use crate::checks::worlds::RegGenCfg;
use crate::checks::worlds::gen_registry_world;
use crate::checks::worlds::media_type_of;
use crate::exec::RunEnd;
use crate::framework::CaseOutcome;
use crate::framework::CaseParams;
use crate::framework::CheckSpec;
use crate::framework::Tier;
use crate::observe::first_diff;
use crate::run::SchedOpts;
use crate::run::SemOpts;
use crate::tape::Stream;
use crate::tape::Tape;
use crate::world::*;

pub fn spec() -> CheckSpec {
  CheckSpec {
    id: "C13",
    level: "exploration",
    rule: "case = generated registry whose versions are published four ways from the same sources: without embedded module information, with moduleGraph2 = serde_json::to_value(analysis of the source by the real analyser), with that value round-tripped once more through ModuleInfo, and as moduleGraph1 (typesSpecifier replaced by the leadingComments that carried the @deno-types pragma); crossed with a per-file cache state (cached: the cache-only probe hits and the file is parsed; not cached: embedded info is used and the content is loaded later) and a drawn schedule per rendering (completion order of the deferred content loads). The no-info, moduleGraph2 and round-tripped renderings must give identical canonical observations; the moduleGraph1 rendering must give the same entries, dependency keys, @deno-types texts, resolved code and type targets and redirects (not the range of the types specifier, which the upgrade recomputes). Every ModuleInfo produced is also round-tripped through JSON and compared. distinct+non-trivial = distinct worlds in which at least one module was built from embedded information",
    assumptions: vec![
      "embedded information is produced by this analyser from sources that parse; registry files are served without content-type headers",
      "the space of ModuleInfo values is the one the generated sources produce; arbitrary programs are outside this family (pure function)",
    ],
    real_components: "deno_graph analysis (serde of ModuleInfo, module_graph_1_to_2), JsrPackageVersionInfo::module_info, load_jsr_subpath (probe, ProvidedModuleAnalyzer, deferred content load), handle_jsr_registry_pending_content_loads",
    stub_components: "Loader serving four renderings of the simulated registry; other seams simulated",
    quick_cases: 5000,
    thorough_cases: 150000,
    run_case,
    systematic: |_| 0,
  }
}

fn with_embed(base: &World, embed: Embed) -> World {
  let mut w = base.clone();
  // drop rendered registry entries, keep local program and cache flags
  w.remote.retain(|u, _| !u.starts_with(REGISTRY));
  w.descs.retain(|u, _| !u.starts_with(REGISTRY));
  for p in w.registry.packages.values_mut() {
    for v in p.versions.values_mut() {
      v.embed = embed;
    }
  }
  w.render_registry(&crate::checks::worlds::embed_info);
  w
}

/// The parts of an observation a version-1 manifest is held to.
fn v1_view(obs: &Value) -> Value {
  let mut modules = serde_json::Map::new();
  if let Some(ms) = obs["modules"].as_object() {
    for (k, m) in ms {
      let deps: Vec<Value> = m["deps"]
        .as_array()
        .map(|a| {
          a.iter()
            .map(|d| {
              json!({
                "key": d["key"],
                "is_dynamic": d["is_dynamic"],
                "code": d["code"]["specifier"],
                "code_error": d["code"]["error"],
                "type": d["type"]["specifier"],
                "type_error": d["type"]["error"],
                "deno_types": d["deno_types"],
                "attr": d["attr"],
              })
            })
            .collect()
        })
        .unwrap_or_default();
      modules.insert(
        k.clone(),
        json!({"kind": m["kind"], "media_type": m["media_type"], "source": m["source"], "deps": deps,
          "types_dep": m["types_dep"]["dependency"]["specifier"]}),
      );
    }
  }
  let mut slots = serde_json::Map::new();
  if let Some(s) = obs["slots"].as_object() {
    for (k, v) in s {
      let vv = if let Some(e) = v.get("error").and_then(|e| e.as_str()) {
        json!({"error": e.split("\n    at ").next().unwrap_or(e)})
      } else {
        v.clone()
      };
      slots.insert(k.clone(), vv);
    }
  }
  json!({
    "slots": slots, "modules": modules,
    "redirects": obs["serialized"]["redirects"],
    "packages": obs["packages"],
  })
}

pub fn run_case(tape: &mut Tape, _tier: Tier, _p: &CaseParams) -> CaseOutcome {
  let mut out = CaseOutcome::default();
  let mut cfg = RegGenCfg::full();
  cfg.allow_manifest_faults = false;
  cfg.allow_stale_meta = false;
  cfg.allow_lockfile = false;
  cfg.allow_embed = false;
  let mut base = gen_registry_world(tape, &cfg);
  // a version-1 manifest can only carry `@deno-types`
  let v1_possible = !base.registry.packages.values().any(|p| {
    p.versions.values().any(|v| {
      v.files.values().any(|d| {
        d.items
          .iter()
          .any(|i| matches!(i.types_pragma, Some((true, _))))
      })
    })
  });
  base.lockfile = Default::default();
  let mut sem = SemOpts::default();
  sem.kind = tape.draw(Stream::Options, 3) as u8;
  sem.skip_dynamic_deps = tape.draw(Stream::Options, 6) == 5;
  // asset imports inside packages are only loaded as assets when enabled
  sem.unstable_text = tape.draw(Stream::Options, 2) == 1;
  let ctx = |extra: Value, w: &World| {
    json!({"what": extra, "sem": sem, "world": w.to_json()})
  };
  // serde round trip of every ModuleInfo of this world
  let analyzer = deno_graph::ast::ParserModuleAnalyzer::default();
  for (u, d) in &base.descs {
    if !d.lang.is_script() || d.unparsable {
      continue;
    }
    let Some(Entry::Module { bytes, .. }) = base.remote.get(u) else {
      continue;
    };
    let Ok(text) = std::str::from_utf8(bytes) else {
      continue;
    };
    let text = text.strip_prefix('\u{feff}').unwrap_or(text);
    let Ok(url) = deno_graph::ModuleSpecifier::parse(u) else {
      continue;
    };
    if let Ok(info) = analyzer.analyze_sync(&url, text.into(), media_type_of(d.lang)) {
      let v = serde_json::to_value(&info).unwrap();
      match serde_json::from_value::<deno_graph::analysis::ModuleInfo>(v.clone()) {
        Ok(back) => {
          let v2 = serde_json::to_value(&back).unwrap();
          if back != info || v2 != v {
            out.violation(
              "C13",
              "module-info-round-trip",
              "module-info-round-trip-differs",
              format!("ModuleInfo of {} changed through JSON: {} vs {}", u, truncate(&v.to_string(), 200), truncate(&v2.to_string(), 200)),
              ctx(json!({"url": u}), &base),
            );
            return out;
          }
          out.count("module_infos_round_tripped", 1);
        }
        Err(e) => {
          out.violation(
            "C13",
            "module-info-round-trip",
            "module-info-does-not-deserialize",
            format!("ModuleInfo of {} does not read back: {}", u, e),
            ctx(json!({"url": u}), &base),
          );
          return out;
        }
      }
    }
  }
  let mut renderings: Vec<(&'static str, Embed)> = vec![
    ("no-info", Embed::None),
    ("moduleGraph2", Embed::V2),
    ("moduleGraph2-round-tripped", Embed::V2RoundTrip),
  ];
  if v1_possible {
    renderings.push(("moduleGraph1", Embed::V1));
  }
  let mut results: Vec<(&'static str, Value, World, SchedOpts, ReportSummary)> =
    vec![];
  for (name, embed) in renderings {
    let w = with_embed(&base, embed);
    let sched = SchedOpts::draw(tape);
    let hash_seed = draw_hash_seed(tape);
    let t0 = std::mem::replace(tape, Tape::replay(Default::default()));
    let res = build_fresh(
      &w,
      &FaultPlan::default(),
      &sem,
      &sched,
      t0,
      hash_seed,
      false,
      |_, _, _| (),
    );
    let (b, t1) = match res {
      Ok(x) => x,
      Err(e) => {
        out.harness_error = Some(format!("run thread panicked: {}", e));
        return out;
      }
    };
    *tape = t1;
    add_summary(&mut out, &b.summary, &sched);
    if b.end != RunEnd::Done {
      out.count("abnormal_end", 1);
      return out;
    }
    results.push((name, b.obs, w, sched, b.summary));
  }
  let (_, base_obs, _, _, base_summary) = &results[0];
  let used_embedded = results[1].4.cache_only_probes_miss > 0;
  out.count("probe.module_built_from_embedded_info", used_embedded as u64);
  out.count(
    "probe.cache_only_probe_hit_parses_instead",
    (results[1].4.cache_only_probes_hit > 0) as u64,
  );
  let _ = base_summary;
  for (name, obs, w, sched, _) in &results[1..] {
    if *name == "moduleGraph1" {
      if let Some((path, a, b)) = first_diff(&v1_view(base_obs), &v1_view(obs)) {
        out.violation(
          "C13",
          "manifest-v1-keeps-deno-types",
          format!("v1-rendering-differs:{}", classify_path(&path)),
          format!(
            "graph built from a moduleGraph1 manifest differs from the parsed one at {}: {} vs {}",
            path,
            truncate(&a.to_string(), 160),
            truncate(&b.to_string(), 160)
          ),
          ctx(json!({"rendering": name, "path": path, "sched": sched}), w),
        );
        return out;
      }
    } else if let Some((path, a, b)) = first_diff(base_obs, obs) {
      out.violation(
        "C13",
        "manifest-shortcut-equals-parsing",
        format!("embedded-rendering-differs:{}:{}", name, classify_path(&path)),
        format!(
          "graph built from embedded module information ({}) differs from the one built by parsing at {}: parsed {} vs embedded {}",
          name,
          path,
          truncate(&a.to_string(), 160),
          truncate(&b.to_string(), 160)
        ),
        ctx(json!({"rendering": name, "path": path, "sched": sched}), w),
      );
      return out;
    }
  }
  if used_embedded {
    out.nontrivial_key = Some(world_hash(&base));
  }
  out.sample = Some(json!({
    "packages": base.registry.packages.iter().map(|(n, p)| (n.clone(), p.versions.keys().cloned().collect::<Vec<_>>())).collect::<std::collections::BTreeMap<_, _>>(),
    "renderings": results.iter().map(|r| r.0).collect::<Vec<_>>(),
    "cached_files": base.cache.len(),
    "kind": sem.kind,
  }));
  out
}
