//! C20 — module text and original bytes are faithful to what the loader
//! supplied. The loader seam logs the exact bytes served; an independent
//! reference decoder (std only) says what the stored text must be.

use deno_graph::Module;
use serde_json::json;

use crate::checks::common::*;
use crate::exec::RunEnd;
use crate::framework::CaseOutcome;
use crate::framework::CaseParams;
use crate::framework::CheckSpec;
use crate::framework::Tier;
use crate::run::SchedOpts;
use crate::run::SemOpts;
use crate::tape::Stream;
use crate::tape::Tape;
use crate::world::*;

pub fn spec() -> CheckSpec {
  CheckSpec {
    id: "C20",
    level: "exploration",
    rule: "case = one text module (JS, TS, JSON as root, JSON by attribute) whose bytes are a sample text encoded as UTF-8 / UTF-16LE / UTF-16BE with or without BOM, then optionally torn (truncated at a drawn offset, possibly mid code point / mid code unit), bit-flipped, spliced with invalid sequences (0xFF, overlong, lone surrogates) or emptied; served from file: or https: with a charset label in {none, utf-8, UTF8, utf-16le, utf-16be, utf-16, windows-1252, us-ascii, iso-8859-1, quoted, unknown, utf-32le}; also through the JSR registry content-load path. For every text module in the finished graph: stored text == reference decoding (header label, else BOM sniffing for file: only, else UTF-8; WHATWG replacement semantics; one leading U+FEFF removed); unknown label => error entry, never a module; try_get_original_bytes() is None or byte-equal to what the seam served; serialised size == text length in bytes. distinct+non-trivial = distinct (bytes, label, origin, media) tuples that produced a module whose bytes are not plain ASCII",
    assumptions: vec![
      "the reference decoder uses std only (from_utf8_lossy, a restated WHATWG UTF-16 decoder, a 32-entry windows-1252 table); it does not use encoding_rs",
    ],
    real_components: "deno_graph new_source_with_text / ModuleTextSource::try_get_original_bytes / serialisation; deno_media_type decoding (encoding_rs); builder and loader seam",
    stub_components: "Loader (serves and logs the byte strings), other seams simulated",
    quick_cases: 30000,
    thorough_cases: 1500000,
    run_case,
    systematic: |t| match t {
      Tier::Quick => 6000,
      Tier::Thorough => torn_family_size(),
    },
  }
}

#[derive(Clone, Copy, Debug, PartialEq, Eq)]
enum Enc {
  Utf8,
  Utf16Le,
  Utf16Be,
  W1252,
}

fn label_to_enc(label: &str) -> Option<Enc> {
  let l = label
    .trim_matches(|c| matches!(c, ' ' | '\t' | '\n' | '\x0c' | '\r'))
    .to_ascii_lowercase();
  match l.as_str() {
    "utf-8" | "utf8" | "unicode-1-1-utf-8" | "x-unicode20utf8"
    | "unicode11utf8" | "unicode20utf8" => Some(Enc::Utf8),
    "utf-16le" | "utf-16" | "ucs-2" | "unicode" | "csunicode"
    | "iso-10646-ucs-2" | "unicodefeff" => Some(Enc::Utf16Le),
    "utf-16be" | "unicodefffe" => Some(Enc::Utf16Be),
    "windows-1252" | "us-ascii" | "ascii" | "iso-8859-1" | "latin1" | "l1"
    | "cp1252" | "x-cp1252" | "iso8859-1" | "iso_8859-1" | "cp819"
    | "ibm819" | "ansi_x3.4-1968" | "iso-ir-100" | "csisolatin1"
    | "iso88591" | "iso_8859-1:1987" => Some(Enc::W1252),
    _ => None,
  }
}

const W1252_HI: [u16; 32] = [
  0x20AC, 0x0081, 0x201A, 0x0192, 0x201E, 0x2026, 0x2020, 0x2021, 0x02C6,
  0x2030, 0x0160, 0x2039, 0x0152, 0x008D, 0x017D, 0x008F, 0x0090, 0x2018,
  0x2019, 0x201C, 0x201D, 0x2022, 0x2013, 0x2014, 0x02DC, 0x2122, 0x0161,
  0x203A, 0x0153, 0x009D, 0x017E, 0x0178,
];

fn ref_decode(enc: Enc, bytes: &[u8]) -> String {
  let mut s = match enc {
    Enc::Utf8 => String::from_utf8_lossy(bytes).into_owned(),
    Enc::Utf16Le | Enc::Utf16Be => {
      // the WHATWG UTF-16 decoder, restated: one replacement character for
      // an unpaired surrogate, and a single one at end of input for a
      // pending lead byte and/or lead surrogate
      let mut out = String::new();
      let mut lead_byte: Option<u8> = None;
      let mut lead_surrogate: Option<u16> = None;
      let mut i = 0;
      while i < bytes.len() {
        let b = bytes[i];
        i += 1;
        let Some(lb) = lead_byte else {
          lead_byte = Some(b);
          continue;
        };
        lead_byte = None;
        let unit = if enc == Enc::Utf16Le {
          u16::from_le_bytes([lb, b])
        } else {
          u16::from_be_bytes([lb, b])
        };
        if let Some(ls) = lead_surrogate.take() {
          if (0xDC00..=0xDFFF).contains(&unit) {
            let c = 0x10000
              + (((ls as u32) - 0xD800) << 10)
              + ((unit as u32) - 0xDC00);
            out.push(char::from_u32(c).unwrap());
            continue;
          }
          // not a trail surrogate: error, then the unit is processed afresh
          out.push(char::REPLACEMENT_CHARACTER);
        }
        if (0xD800..=0xDBFF).contains(&unit) {
          lead_surrogate = Some(unit);
        } else if (0xDC00..=0xDFFF).contains(&unit) {
          out.push(char::REPLACEMENT_CHARACTER);
        } else {
          out.push(char::from_u32(unit as u32).unwrap());
        }
      }
      if lead_byte.is_some() || lead_surrogate.is_some() {
        out.push(char::REPLACEMENT_CHARACTER);
      }
      out
    }
    Enc::W1252 => bytes
      .iter()
      .map(|b| {
        if (0x80..0xA0).contains(b) {
          char::from_u32(W1252_HI[(*b - 0x80) as usize] as u32).unwrap()
        } else {
          *b as char
        }
      })
      .collect(),
  };
  if s.starts_with('\u{feff}') {
    s.drain(..'\u{feff}'.len_utf8());
  }
  s
}

/// Expected stored text, or Err for an unsupported label.
fn expected_text(
  is_file: bool,
  label: Option<&str>,
  bytes: &[u8],
) -> Result<String, ()> {
  let enc = match label {
    Some(l) => label_to_enc(l).ok_or(())?,
    None => {
      if is_file && bytes.starts_with(&[0xFF, 0xFE]) {
        Enc::Utf16Le
      } else if is_file && bytes.starts_with(&[0xFE, 0xFF]) {
        Enc::Utf16Be
      } else {
        Enc::Utf8
      }
    }
  };
  Ok(ref_decode(enc, bytes))
}

const SAMPLES: [&str; 7] = [
  "plain ascii",
  "h\u{e9}llo w\u{f6}rld \u{20ac}",
  "\u{65e5}\u{672c}\u{8a9e}\u{30c6}\u{30ad}\u{30b9}\u{30c8}",
  "\u{1f600} astral \u{1d4b3}",
  "",
  "\u{feff}inner bom",
  "tab\tand\\backslash",
];

const LABELS: [Option<&str>; 14] = [
  None,
  None,
  Some("utf-8"),
  Some("UTF8"),
  Some("utf-16le"),
  Some("utf-16be"),
  Some("utf-16"),
  Some("windows-1252"),
  Some("us-ascii"),
  Some("iso-8859-1"),
  Some("\"utf-8\""),
  Some("x-bogus"),
  Some("utf-32le"),
  Some(" utf-8"),
];

fn encode(text: &str, enc: u32, bom: bool) -> Vec<u8> {
  match enc {
    0 => {
      let mut v = vec![];
      if bom {
        v.extend_from_slice(&[0xEF, 0xBB, 0xBF]);
      }
      v.extend_from_slice(text.as_bytes());
      v
    }
    1 => {
      let mut v = vec![];
      if bom {
        v.extend_from_slice(&[0xFF, 0xFE]);
      }
      for u in text.encode_utf16() {
        v.extend_from_slice(&u.to_le_bytes());
      }
      v
    }
    _ => {
      let mut v = vec![];
      if bom {
        v.extend_from_slice(&[0xFE, 0xFF]);
      }
      for u in text.encode_utf16() {
        v.extend_from_slice(&u.to_be_bytes());
      }
      v
    }
  }
}

const TORN_OFFSETS: u64 = 64;

fn torn_family_size() -> u64 {
  SAMPLES.len() as u64 * 4 * 3 * 2 * LABELS.len() as u64 * 2 * TORN_OFFSETS
}

/// Systematic family: every sample x media x encoding x BOM x label x origin,
/// torn (truncated) at every offset up to 64 - reads that stop mid code point
/// or mid code unit.
fn torn_member(idx: u64, tier: Tier) -> Tape {
  let idx = if tier == Tier::Quick {
    idx.wrapping_mul(104_729) % torn_family_size()
  } else {
    idx % torn_family_size()
  };
  let mut i = idx;
  let mut next = |n: u64| {
    let v = (i % n) as u32;
    i /= n;
    v
  };
  let sample = next(SAMPLES.len() as u64);
  let media = next(4);
  let enc = next(3);
  let bom = next(2);
  let label = next(LABELS.len() as u64);
  let remote = next(2);
  let offset = next(TORN_OFFSETS);
  Tape::replay(crate::tape::Tapes {
    // draw order of `run_inner` on the world stream
    world: vec![sample, media, enc, bom, label, remote],
    // fault kind 1 = truncate, then the offset
    faults: vec![1, offset],
    ..Default::default()
  })
}

pub fn run_case(tape: &mut Tape, tier: Tier, p: &CaseParams) -> CaseOutcome {
  match p.systematic_index {
    Some(i) => {
      let mut sub = torn_member(i, tier);
      let mut out = run_inner(&mut sub);
      out.count("torn_family_members", 1);
      out
    }
    None => run_inner(tape),
  }
}

fn run_inner(tape: &mut Tape) -> CaseOutcome {
  let mut out = CaseOutcome::default();
  let sample = *tape.pick(Stream::World, &SAMPLES);
  // 0 js, 1 ts, 2 json root, 3 json by attribute, 4 registry file
  let media = tape.draw(Stream::World, 5);
  let text = match media {
    0 | 1 | 4 => format!("/* {} */\nexport const a = 1;\n", sample),
    _ => format!("{{\"k\": \"{}\"}}", sample.replace('\\', "\\\\").replace('\t', " ")),
  };
  let enc = tape.draw(Stream::World, 3);
  let bom = tape.draw(Stream::World, 2) == 1;
  let mut bytes = encode(&text, enc, bom);
  // content faults (torn / flipped / spliced)
  let fault = tape.draw(Stream::Faults, 7);
  let mut fault_name = "none";
  match fault {
    1 => {
      let k = tape.draw(Stream::Faults, bytes.len() as u32 + 1) as usize;
      bytes.truncate(k);
      fault_name = "truncate";
    }
    2 => {
      if !bytes.is_empty() {
        let p = tape.draw(Stream::Faults, bytes.len() as u32 * 8);
        bytes[(p / 8) as usize] ^= 1 << (p % 8);
      }
      fault_name = "bit-flip";
    }
    3 => {
      let junk: [&[u8]; 6] = [
        &[0xFF],
        &[0xC0, 0x80],
        &[0xED, 0xA0, 0x80],
        &[0x00, 0xD8],
        &[0xD8, 0x00],
        &[0xF0, 0x9F],
      ];
      let j = *tape.pick(Stream::Faults, &junk);
      let at = tape.draw(Stream::Faults, bytes.len() as u32 + 1) as usize;
      let at = at.min(bytes.len());
      let tail = bytes.split_off(at);
      bytes.extend_from_slice(j);
      bytes.extend_from_slice(&tail);
      fault_name = "splice-invalid";
    }
    4 => {
      bytes.clear();
      fault_name = "empty";
    }
    5 => {
      bytes.push(0x41);
      fault_name = "odd-length";
    }
    6 => {
      let n = tape.draw(Stream::Faults, 24) + 1;
      bytes = (0..n).map(|_| tape.draw(Stream::Faults, 256) as u8).collect();
      fault_name = "garbage";
    }
    _ => {}
  }
  let label = *tape.pick(Stream::World, &LABELS);
  let remote = media == 4 || tape.draw(Stream::World, 2) == 1;
  // a local module may come with headers too (the loader interface allows
  // it); without a label a local module is BOM-sniffed
  let label = if media != 4 { label } else { None };
  let mut w = World::default();
  let (url, ext) = match media {
    0 => ("m.js", "text/javascript"),
    1 => ("m.ts", "application/typescript"),
    2 | 3 => ("m.json", "application/json"),
    _ => ("", ""),
  };
  let target = if media == 4 {
    format!("{}@a/b/1.0.0/mod.ts", REGISTRY)
  } else if remote {
    format!("{}{}", H_A, url)
  } else {
    format!("{}{}", H_FILE, url)
  };
  let mut sem = SemOpts::default();
  if media == 4 {
    // registry package; content reaches the graph either through the cached
    // probe (parsed) or through the deferred content load (charset None)
    let mut pv = PkgVersion {
      yanked: false,
      created_at: None,
      exports: Exports::Single("./mod.ts".into()),
      files: Default::default(),
      embed: if tape.draw(Stream::World, 2) == 1 {
        Embed::V2
      } else {
        Embed::None
      },
      manifest_omit: Default::default(),
      manifest_bad_prefix: Default::default(),
      lockfile_checksum: None,
      manifest_missing: false,
    };
    pv.files
      .insert("/mod.ts".into(), ModuleDesc::new("", Lang::Ts));
    let mut pkg = Package::default();
    pkg.versions.insert("1.0.0".into(), pv);
    w.registry.packages.insert("@a/b".into(), pkg);
    w.render_registry(&crate::checks::worlds::embed_info);
    // replace the file's bytes and fix the manifest checksum accordingly
    w.remote.insert(
      target.clone(),
      Entry::Module {
        bytes: bytes.clone(),
        headers: vec![],
        final_url: None,
      },
    );
    let meta_url = format!("{}@a/b/1.0.0_meta.json", REGISTRY);
    if let Some(Entry::Module { bytes: mb, .. }) = w.remote.get(&meta_url).cloned() {
      let mut v: serde_json::Value = serde_json::from_slice(&mb).unwrap();
      v["manifest"]["/mod.ts"]["checksum"] =
        json!(format!("sha256-{}", sha256_hex(&bytes)));
      w.remote
        .insert(meta_url, Entry::module(serde_json::to_vec(&v).unwrap()));
    }
    if tape.draw(Stream::World, 2) == 1 {
      w.cache.insert(target.clone(), None);
    }
    let mut main = ModuleDesc::new(format!("{}main.ts", H_FILE), Lang::Ts);
    main.items.push(Item::new(Form::Named, "jsr:@a/b@1"));
    w.add_desc(main);
    w.roots.push(format!("{}main.ts", H_FILE));
  } else {
    let mut headers = vec![];
    if remote || label.is_some() {
      let ct = match label {
        Some(l) => format!("{}; charset={}", ext, l),
        None => ext.to_string(),
      };
      headers.push(("content-type".to_string(), ct));
    }
    w.remote.insert(
      target.clone(),
      Entry::Module {
        bytes: bytes.clone(),
        headers,
        final_url: None,
      },
    );
    if media == 3 {
      let mut main = ModuleDesc::new(format!("{}main.ts", H_FILE), Lang::Ts);
      let mut it = Item::new(Form::Default, target.clone());
      it.attr = Some("json".into());
      main.items.push(it);
      w.add_desc(main);
      w.roots.push(format!("{}main.ts", H_FILE));
    } else {
      w.roots.push(target.clone());
    }
  }
  sem.with_locker = tape.draw(Stream::Options, 4) == 3;
  // sometimes the bytes arrive through the cache-bypassing retry: the lockfile
  // knows their checksum and the cache tier holds a corrupt copy
  if remote && media != 4 && tape.draw(Stream::Faults, 4) == 3 {
    sem.with_locker = true;
    w.lockfile.present = true;
    w.lockfile.remote.insert(target.clone(), sha256_hex(&bytes));
    if let Some(Entry::Module { bytes: b, headers, .. }) = w.remote.get(&target).cloned() {
      let mut bad = b;
      bad.extend_from_slice(b"\n/* corrupt */");
      w.cache.insert(
        target.clone(),
        Some(Entry::Module {
          bytes: bad,
          headers,
          final_url: None,
        }),
      );
    }
    out.count("probe.bytes_arrive_through_checksum_retry", 1);
  }
  let sched = SchedOpts::draw(tape);
  let hash_seed = draw_hash_seed(tape);
  let t0 = std::mem::replace(tape, Tape::replay(Default::default()));
  let target2 = target.clone();
  let res = build_fresh(
    &w,
    &FaultPlan::default(),
    &sem,
    &sched,
    t0,
    hash_seed,
    false,
    move |session, report, _| {
      if report.end != RunEnd::Done {
        return None;
      }
      let url = deno_graph::ModuleSpecifier::parse(&target2).ok()?;
      // bytes the seam served for this url (last module answer)
      let served: Option<Vec<u8>> = report
        .loads
        .iter()
        .filter(|l| l.id.url == target2 && l.answer == "module")
        .next_back()
        .and_then(|l| l.served.as_ref().map(|b| b.to_vec()));
      let all_served: Vec<Vec<u8>> = report
        .loads
        .iter()
        .filter(|l| l.id.url == target2)
        .filter_map(|l| l.served.as_ref().map(|b| b.to_vec()))
        .collect();
      let ser = serde_json::to_value(&session.graph).ok();
      let ser_size = ser.as_ref().and_then(|v| {
        v["modules"].as_array().and_then(|ms| {
          ms.iter()
            .find(|m| m["specifier"] == target2.as_str())
            .and_then(|m| m["size"].as_u64())
        })
      });
      let r = match session.graph.try_get(&url) {
        Ok(Some(Module::Js(m))) => Some((
          "js",
          m.source.text.to_string(),
          m.source.try_get_original_bytes().map(|b| b.to_vec()),
          format!("{:?}", m.source.decoded_kind),
        )),
        Ok(Some(Module::Json(m))) => Some((
          "json",
          m.source.text.to_string(),
          m.source.try_get_original_bytes().map(|b| b.to_vec()),
          format!("{:?}", m.source.decoded_kind),
        )),
        Ok(Some(_)) => None,
        Ok(None) => None,
        Err(e) => Some(("error", e.to_string(), None, String::new())),
      };
      Some((r, served, all_served, ser_size))
    },
  );
  let (built, t1) = match res {
    Ok(x) => x,
    Err(e) => {
      out.harness_error = Some(format!("run thread panicked: {}", e));
      return out;
    }
  };
  *tape = t1;
  add_summary(&mut out, &built.summary, &sched);
  out.count(&format!("fault.{}", fault_name), (fault_name != "none") as u64);
  let Some((slot, served, all_served, ser_size)) = built.extra else {
    out.count("abnormal_end", 1);
    return out;
  };
  let ctx = json!({
    "url": target, "label": label, "media": media, "remote": remote,
    "bytes_hex": bytes.iter().map(|b| format!("{:02x}", b)).collect::<String>(),
    "fault": fault_name, "sched": sched,
  });
  let is_file = target.starts_with("file:");
  let expect = expected_text(is_file, label, &bytes);
  match (&slot, &expect) {
    (Some((kind, text, orig, decoded_kind)), Ok(exp)) if *kind != "error" => {
      out.count("probe.text_module_checked", 1);
      if text != exp {
        out.violation(
          "C20",
          "text-is-reference-decoding",
          format!(
            "text-differs:{}:{}",
            label.map(|_| "labelled").unwrap_or("unlabelled"),
            if is_file { "file" } else { "remote" }
          ),
          format!(
            "stored text {:?} != reference decoding {:?}",
            crate::checks::c04::truncate(text, 80),
            crate::checks::c04::truncate(exp, 80)
          ),
          ctx.clone(),
        );
        return out;
      }
      if let Some(o) = orig {
        out.count("probe.original_bytes_returned", 1);
        let matches_served = all_served.iter().any(|s| s == o)
          || served.as_ref() == Some(o);
        if !matches_served {
          out.violation(
            "C20",
            "original-bytes-are-the-served-bytes",
            format!("original-bytes-differ:{}", decoded_kind),
            format!(
              "try_get_original_bytes() returned {} bytes that differ from the {} bytes the loader served (decoded kind {})",
              o.len(),
              served.as_ref().map(|s| s.len()).unwrap_or(0),
              decoded_kind
            ),
            ctx.clone(),
          );
          return out;
        }
      } else {
        out.count("probe.original_bytes_none", 1);
      }
      if let Some(sz) = ser_size {
        if sz as usize != text.len() {
          out.violation(
            "C20",
            "size-is-text-length",
            "size-differs",
            format!("serialised size {} != text byte length {}", sz, text.len()),
            ctx.clone(),
          );
          return out;
        }
      }
      if !bytes.is_ascii() {
        out.nontrivial_key = Some(crate::rng::hash_str(
          21,
          &format!("{:?}{:?}{}{}", bytes, label, remote, media),
        ));
      }
    }
    (Some((kind, text, _, _)), Err(())) => {
      if *kind != "error" {
        out.violation(
          "C20",
          "unknown-charset-is-an-error",
          "unknown-label-admitted",
          format!(
            "charset label {:?} is not a known encoding but the module was admitted with text {:?}",
            label,
            crate::checks::c04::truncate(text, 60)
          ),
          ctx.clone(),
        );
        return out;
      }
      out.count("probe.decode_error_entry", 1);
    }
    (Some((_, _, _, _)), Ok(_)) => {
      // error entry with a decodable input: parse errors etc. are fine
      out.count("probe.error_entry_other", 1);
    }
    (None, _) => {
      out.count("no_entry", 1);
    }
  }
  out.sample = Some(json!({"url": target, "label": label, "bytes": bytes.len(), "fault": fault_name, "media": media}));
  out
}
