//! C02 — validation fails exactly when a followed edge reaches a failure.
//! Graph-level oracle: for every walk option combination and root subset,
//! `validate()` is `Err` iff the reference error set is non-empty and the
//! returned error is a member of it. World-level oracle: `valid()` fails iff
//! a placed failure is reachable through static code edges of the world
//! (see `world_level`).

use crate::framework::CheckSpec;

pub fn spec() -> CheckSpec {
  CheckSpec {
    id: "C02",
    level: "exploration",
    rule: "case = generated world with missing / erroring / unparsable / unsupported / policy-violating (https->http, remote->file://) entries placed behind static, dynamic, type-only and types-dependency edges and redirect chains, built under a drawn schedule; on the finished graph for all 36 walk option combinations x 4 root subsets: validate() is Err iff the declaratively computed set of failures reachable along the selected edges is non-empty, and the returned error belongs to that set (naming the failing specifier and the referring range). distinct+non-trivial = distinct graphs with at least one error entry or failed resolution",
    assumptions: vec![
      "the reachable-failure set is computed by the reference walk of C15 plus the resolution rules (failed resolution, downgrade, local import, missing-as-dynamic) restated declaratively",
    ],
    real_components: "deno_graph builder, ModuleEntryIterator, ModuleGraphErrorIterator::check_resolution, ModuleGraph::valid",
    stub_components: "all seams simulated",
    quick_cases: 8000,
    thorough_cases: 150000,
    run_case: |t, tier, p| {
      let mut out = crate::checks::c15::run_case_for(t, tier, p, "C02");
      // non-trivial only when the graph carries a failure
      let has_failure = out
        .counters
        .iter()
        .any(|(k, v)| k.starts_with("graph.error.") && *v > 0);
      if !has_failure {
        out.nontrivial_key = None;
      }
      out
    },
    systematic: |_| 0,
  }
}
