//! C01 — a built graph is exactly the dependency closure of its roots.
//! (A) every module's recorded dependencies equal what the reference model
//! derives from its structured description; (B) the graph is closed under,
//! and reachable through, the edges the kind and options say to follow, and
//! every loader request is accounted for.

use std::collections::BTreeMap;
use std::collections::BTreeSet;

use serde_json::Value;
use serde_json::json;

use crate::checks::common::*;
use crate::exec::RunEnd;
use crate::framework::CaseOutcome;
use crate::framework::CaseParams;
use crate::framework::CheckSpec;
use crate::framework::Tier;
use crate::model::Res;
use crate::model::built_module;
use crate::model::deps_map;
use crate::run::SchedOpts;
use crate::run::SemOpts;
use crate::shape::ResShape;
use crate::shape::Shape;
use crate::shape::SlotShape;
use crate::shape::shape_of;
use crate::tape::Stream;
use crate::tape::Tape;
use crate::world::*;

pub fn spec() -> CheckSpec {
  CheckSpec {
    id: "C01",
    level: "exploration",
    rule: "case = generated world (JS/TS/JSX/TSX/d.ts/JSON/Wasm/unknown by extension or content-type; import, export-from, import type, import-type expression, import-equals, defer and source phase, dynamic import, triple-slash path/types, @ts-types/@deno-types, @ts-self-types, JSX import source (+types), JSDoc imports, sourceMappingURL, x-typescript-types, resolver with per-kind entries, failures and resolve_types; file/http/https/data/node/npm/jsr schemes; redirects, aliases, external and missing entries; registry packages with and without embedded module information) x graph kind x build options (skip dynamic, dynamic root, unstable attribute types, npm resolver present or absent, jsr passthrough), under the statement's proviso (one `type` attribute per target), built under a drawn schedule. (A) for every loaded module that has a structured description, the recorded dependency map (key, code target, type target, dynamic flag, attribute, @deno-types text, types dependency) equals the model's; (B) every entry is reachable from roots and configured imports along followed edges and redirects, every followed target is an entry or a redirect source, every module request of the loader is an entry or a redirect source, and no response's final specifier is missing. distinct+non-trivial = distinct (world, kind, options) with at least 3 entries",
    assumptions: vec![
      "the model reads the generator's structured description, never source text; URL joining uses deno_graph::resolve_import (trusted)",
      "the same-`type`-attribute proviso is enforced by the generator; source-phase imports are generated only for targets not imported otherwise",
    ],
    real_components: "deno_graph builder, parse_module / fill_module_dependencies / parse_js_module_from_module_info, deno_ast+swc analysis, registry embedded-info path",
    stub_components: "all seams simulated; reference model of module dependencies and of the closure",
    quick_cases: 15000,
    thorough_cases: 400000,
    run_case,
    systematic: |_| 0,
  }
}

fn res_of(v: &Value) -> Res {
  if v.is_null() {
    Res::None
  } else if let Some(s) = v.get("specifier").and_then(|s| s.as_str()) {
    Res::Ok(s.to_string())
  } else {
    Res::Err
  }
}

fn followed_targets(
  shape: &Shape,
  url: &str,
  kind: u8,
  skip_dynamic: bool,
) -> Vec<String> {
  let mut v = vec![];
  let Some(SlotShape::Module(m)) = shape.slots.get(url) else {
    return v;
  };
  let include_types = kind != 1;
  let include_code = kind != 2;
  let has_types_dep = matches!(&m.types_dep, Some(_));
  if m.kind == "js" {
    if include_code || !has_types_dep {
      if let Some(ResShape::Ok(t, _)) = &m.source_map_dep {
        v.push(t.clone());
      }
    }
  }
  if !(m.kind == "js" && kind == 2 && has_types_dep) {
    for d in &m.deps {
      if d.is_dynamic && skip_dynamic {
        continue;
      }
      if include_code || d.typ == ResShape::None {
        if let Some(t) = d.code.ok() {
          v.push(t.to_string());
        }
      }
      if include_types {
        if let Some(t) = d.typ.ok() {
          v.push(t.to_string());
        }
      }
    }
  }
  if include_types {
    if let Some((_, r)) = &m.types_dep {
      if let Some(t) = r.ok() {
        v.push(t.to_string());
      }
    }
  }
  v
}

pub fn run_case(tape: &mut Tape, _tier: Tier, _p: &CaseParams) -> CaseOutcome {
  let mut out = CaseOutcome::default();
  let mut cfg = GenCfg::basic();
  cfg.mixed_attrs = false;
  let mut world = crate::checks::worlds::gen_any_world(tape, &cfg);
  crate::checks::worlds::strip_lockfile(&mut world);
  if tape.draw(Stream::World, 6) == 5 {
    // a root that reaches its module through explicit redirects: the root
    // defaults (unknown media type taken as JavaScript, attribute-less JSON
    // accepted) belong to the target
    let lang = *tape.pick(
      Stream::World,
      &[Lang::Unknown, Lang::Json, Lang::Ts, Lang::Js, Lang::Unknown],
    );
    let t = format!("{}rr_target{}", H_A, lang.ext());
    let mut d = ModuleDesc::new(t.clone(), lang);
    if lang.is_script() {
      if let Some(r0) = world.roots.first().filter(|r| r.starts_with("http")) {
        d.items.push(Item::new(Form::SideEffect, r0.clone()));
      }
    }
    world.add_desc(d);
    let hops = tape.range(Stream::World, 1, 3);
    let mut to = t;
    for h in 0..hops {
      let u = format!("{}rr_hop{}", H_A, h);
      world.remote.insert(u.clone(), Entry::Redirect(to));
      to = u;
    }
    world.roots.push(to);
  }
  // a Wasm module imported at source phase (an asset load) and, through an
  // alias that answers with it as final specifier, as a module: the module
  // has to win whatever arrives first
  let mut wasm_both_ways: Option<String> = None;
  if tape.draw(Stream::World, 8) == 7 {
    let importer = world
      .roots
      .first()
      .and_then(|r| world.descs.get(r))
      .filter(|d| {
        d.lang.is_script() && !d.lang.is_declaration() && d.url.starts_with("http")
      })
      .cloned();
    if let Some(mut imp) = importer {
      let y = format!("{}both_ways.wasm", H_A);
      let x = format!("{}both_ways_alias", H_A);
      world.add_desc(ModuleDesc::new(y.clone(), Lang::Wasm));
      if let Some(Entry::Module { bytes, headers, .. }) = world.remote.get(&y).cloned() {
        world.remote.insert(
          x.clone(),
          Entry::Module {
            bytes,
            headers,
            final_url: Some(y.clone()),
          },
        );
        if tape.draw(Stream::World, 3) != 0 {
          imp.items.insert(0, Item::new(Form::Source, y.clone()));
          imp.items.push(Item::new(Form::SideEffect, x));
        } else {
          imp.items.insert(0, Item::new(Form::SideEffect, x));
          imp.items.push(Item::new(Form::Source, y.clone()));
        }
        world.add_desc(imp);
        refresh_aliases(&mut world);
        wasm_both_ways = Some(y);
      }
    }
  }
  let mut sem = SemOpts::draw(tape);
  sem.with_locker = false;
  sem.max_redirects = 10;
  let sched = SchedOpts::draw(tape);
  let hash_seed = draw_hash_seed(tape);
  let t0 = std::mem::replace(tape, Tape::replay(Default::default()));
  let res = build_fresh(
    &world,
    &FaultPlan::default(),
    &sem,
    &sched,
    t0,
    hash_seed,
    false,
    |session, report, _| {
      (
        if report.end == RunEnd::Done {
          Some(shape_of(&session.graph))
        } else {
          None
        },
        report.loads.clone(),
      )
    },
  );
  let (built, t1) = match res {
    Ok(x) => x,
    Err(e) => {
      out.harness_error = Some(format!("run thread panicked: {}", e));
      return out;
    }
  };
  *tape = t1;
  add_summary(&mut out, &built.summary, &sched);
  let (Some(shape), loads) = built.extra else {
    out.count("abnormal_end", 1);
    return out;
  };
  let ctx = |extra: Value| {
    json!({"what": extra, "sem": sem, "sched": sched, "hash_seed": hash_seed, "world": world.to_json()})
  };
  let empty = serde_json::Map::new();
  let modules = built.obs["modules"].as_object().unwrap_or(&empty);
  // (A) per-module dependency model
  let mut compared = 0u64;
  for (url, m) in modules {
    let Some(desc) = world.descs.get(url) else {
      continue;
    };
    let kind_s = m["kind"].as_str().unwrap_or("");
    if kind_s != "js" && kind_s != "wasm" {
      continue;
    }
    if (kind_s == "wasm") != (desc.lang == Lang::Wasm) {
      continue; // loaded as something else (e.g. asset)
    }
    compared += 1;
    let exp = built_module(&world, desc, sem.kind, sem.skip_dynamic_deps);
    let exp_deps = deps_map(&exp);
    let mut got: BTreeMap<String, (Res, Res, bool, Option<String>, Option<String>)> =
      BTreeMap::new();
    for d in m["deps"].as_array().cloned().unwrap_or_default() {
      got.insert(
        d["key"].as_str().unwrap_or("").to_string(),
        (
          res_of(&d["code"]),
          res_of(&d["type"]),
          d["is_dynamic"].as_bool().unwrap_or(false),
          d["attr"].as_str().map(|s| s.to_string()),
          d["deno_types"].as_str().map(|s| s.to_string()),
        ),
      );
    }
    let exp_keys: BTreeSet<&String> = exp_deps.keys().collect();
    let got_keys: BTreeSet<&String> = got.keys().collect();
    if exp_keys != got_keys {
      out.violation(
        "C01",
        "dependencies-match-source",
        format!(
          "dependency-keys-differ:{}{}:{:?}",
          if exp_keys.difference(&got_keys).next().is_some() { "missing" } else { "" },
          if got_keys.difference(&exp_keys).next().is_some() { "extra" } else { "" },
          desc.lang
        ),
        format!(
          "{}: recorded dependency keys {:?}, the source declares {:?}",
          url, got_keys, exp_keys
        ),
        ctx(json!({"module": url})),
      );
      return out;
    }
    for (k, e) in &exp_deps {
      let g = &got[k];
      let field = if g.0 != e.code {
        Some(("code", format!("{:?} vs {:?}", g.0, e.code)))
      } else if g.1 != e.typ {
        Some(("type", format!("{:?} vs {:?}", g.1, e.typ)))
      } else if (!e.code.is_none() || true) && g.2 != e.is_dynamic && !e.code.is_none() {
        Some(("is_dynamic", format!("{} vs {}", g.2, e.is_dynamic)))
      } else if g.3 != e.attr {
        Some(("attribute", format!("{:?} vs {:?}", g.3, e.attr)))
      } else if g.4 != e.deno_types {
        Some(("deno_types", format!("{:?} vs {:?}", g.4, e.deno_types)))
      } else if g.2 && e.static_type_import && !e.code.is_none() {
        // "static wins when a specifier is imported both ways": a static
        // type-only import next to a dynamic code import of the same text
        Some((
          "is_dynamic:static-type-import-does-not-count",
          "true although the same specifier is also imported statically (type-only)".to_string(),
        ))
      } else {
        None
      };
      if let Some((f, what)) = field {
        out.violation(
          "C01",
          "dependencies-match-source",
          format!("dependency-field-differs:{}:{:?}:kind{}", f, desc.lang, sem.kind),
          format!(
            "{} dependency {:?}: recorded {} differs from what the source declares: {}",
            url, k, f, what
          ),
          ctx(json!({"module": url, "key": k})),
        );
        return out;
      }
    }
    // types dependency
    let got_td = m.get("types_dep").map(|t| {
      (
        t["specifier"].as_str().unwrap_or("").to_string(),
        res_of(&t["dependency"]),
      )
    });
    if got_td != exp.types_dep {
      out.violation(
        "C01",
        "dependencies-match-source",
        format!("types-dependency-differs:{:?}:kind{}", desc.lang, sem.kind),
        format!(
          "{}: recorded types dependency {:?}, the source declares {:?}",
          url, got_td, exp.types_dep
        ),
        ctx(json!({"module": url})),
      );
      return out;
    }
  }
  out.count("modules_compared_with_model", compared);
  // (B) closure
  let mut reach: BTreeSet<String> = BTreeSet::new();
  let mut work: Vec<String> = shape.roots.clone();
  for (_, deps) in &shape.imports {
    for d in deps {
      if let Some(t) = d.typ.ok() {
        work.push(t.to_string());
      }
    }
  }
  while let Some(s) = work.pop() {
    if !reach.insert(s.clone()) {
      continue;
    }
    if shape.slots.contains_key(&s) {
      for t in followed_targets(&shape, &s, sem.kind, sem.skip_dynamic_deps) {
        // a followed target must be present
        if !shape.slots.contains_key(&t) && !shape.redirects.contains_key(&t) {
          out.violation(
            "C01",
            "nothing-reachable-is-absent",
            "followed-target-absent",
            format!("{} has a followed dependency on {} which is neither an entry nor a redirect", s, t),
            ctx(json!({"module": s, "target": t})),
          );
          return out;
        }
        work.push(t);
      }
    }
    if let Some(t) = shape.redirects.get(&s) {
      // lockfile-free worlds: every redirect was produced by the loader
      work.push(t.clone());
    }
  }
  // what the imports of modules that ended as error entries lead to: their
  // dependencies may have been visited before the importer turned into an
  // error
  let mut below_failed: BTreeSet<String> = BTreeSet::new();
  {
    let mut work: Vec<String> = vec![];
    for d in world.descs.values() {
      if matches!(shape.slots.get(&d.url), Some(SlotShape::Err { .. })) {
        let mut texts: Vec<&String> = d.items.iter().map(|i| &i.spec).collect();
        texts.extend(d.items.iter().filter_map(|i| i.types_pragma.as_ref().map(|p| &p.1)));
        texts.extend(d.self_types.iter());
        texts.extend(d.source_map.iter());
        for t in texts {
          let r = resolve_text(&world, &d.url, t);
          work.push(final_target(&world, &r));
          work.push(r);
        }
        for j in d.jsx_import_source.iter().chain(d.jsx_import_source_types.iter()) {
          work.push(resolve_text(&world, &d.url, &format!("{}/jsx-runtime", j)));
        }
      }
    }
    while let Some(s) = work.pop() {
      if !below_failed.insert(s.clone()) {
        continue;
      }
      work.extend(followed_targets(&shape, &s, sem.kind, sem.skip_dynamic_deps));
      if let Some(t) = shape.redirects.get(&s) {
        work.push(t.clone());
      }
    }
  }
  for k in shape.slots.keys() {
    if !reach.contains(k) {
      let what = match shape.slots.get(k) {
        Some(SlotShape::Module(m)) => format!("module:{}", m.kind),
        Some(SlotShape::Err { variant, .. }) => format!("error:{}", variant),
        None => String::new(),
      };
      let explained_by_error_importer = below_failed.contains(k);
      out.violation(
        "C01",
        "nothing-unreachable-is-present",
        format!(
          "unreachable-entry:{}{}",
          what,
          if explained_by_error_importer {
            ":importer-became-error"
          } else {
            ""
          }
        ),
        format!(
          "{} ({}) is in the graph but not reachable from the roots along followed edges",
          k, what
        ),
        ctx(json!({"entry": k})),
      );
      return out;
    }
  }
  for k in shape.redirects.keys() {
    if !reach.contains(k) {
      out.violation(
        "C01",
        "nothing-unreachable-is-present",
        if below_failed.contains(k) {
          "unreachable-redirect:importer-became-error"
        } else {
          "unreachable-redirect"
        },
        format!("redirect {} -> {} is not reachable from the roots", k, shape.redirects[k]),
        ctx(json!({"redirect": k})),
      );
      return out;
    }
  }
  // every module request is an entry or a redirect source, redirects recorded
  let restart_seq = loads
    .iter()
    .filter(|l| {
      l.id.nth >= 1 && l.id.cs == CS_USE && !l.id.ensure && shape.roots.contains(&l.id.url)
    })
    .map(|l| l.seq)
    .max()
    .unwrap_or(0);
  for l in &loads {
    if l.seq < restart_seq
      || l.id.cs == CS_ONLY
      || (l.id.url.starts_with(REGISTRY) && l.id.url.ends_with("meta.json"))
    {
      continue;
    }
    if !shape.slots.contains_key(&l.id.url)
      && !shape.redirects.contains_key(&l.id.url)
    {
      out.violation(
        "C01",
        "every-request-has-an-entry",
        format!("request-without-entry:{}", l.answer),
        format!("{} (answered {}) has neither an entry nor a redirect", l.id.label(), l.answer),
        ctx(json!({"request": l.id.label()})),
      );
      return out;
    }
    // (an `ensure_cached` answer has no way to name another final specifier:
    // `CacheResponse::Cached` carries none)
    if l.answer == "redirect"
      || (l.answer == "module"
        && !l.id.ensure
        && l.final_url.as_ref() != Some(&l.id.url))
    {
      let to = l.final_url.clone().unwrap_or_default();
      // the redirect is recorded unless it was rejected (error entry)
      let recorded = shape.redirects.get(&l.id.url) == Some(&to);
      let rejected = matches!(shape.slots.get(&l.id.url), Some(SlotShape::Err { .. }));
      let first_redirect_wins = shape.redirects.contains_key(&l.id.url);
      if !recorded && !rejected && !first_redirect_wins {
        out.violation(
          "C01",
          "every-redirect-recorded",
          "redirect-not-recorded",
          format!("{} was redirected to {} but the graph has no redirect for it", l.id.label(), to),
          ctx(json!({"request": l.id.label()})),
        );
        return out;
      }
    }
  }
  // (C) entry kinds: what the world serves as a module is a module entry
  {
    // final target -> some reference carries an attribute / source phase
    let mut referenced: BTreeMap<String, bool> = BTreeMap::new();
    let mut note = |from: &str, text: &str, special: bool| {
      let mut rs = vec![resolve_text(&world, from, text)];
      // the resolver may answer differently for code and for types
      for types in [false, true] {
        if let Res::Ok(u) = crate::model::resolve(&world, from, text, types) {
          rs.push(u);
        }
      }
      for r in rs {
        let t = final_target(&world, &r);
        let e = referenced.entry(t).or_insert(false);
        *e |= special;
        let e = referenced.entry(r).or_insert(false);
        *e |= special;
      }
    };
    for d in world.descs.values() {
      for it in &d.items {
        let special = it.attr.is_some() || it.form.is_source_phase();
        note(&d.url, &it.spec, special);
        if let Some((_, t)) = &it.types_pragma {
          note(&d.url, t, special);
        }
      }
      for t in d
        .self_types
        .iter()
        .chain(d.source_map.iter())
        .chain(d.x_typescript_types.iter())
      {
        note(&d.url, t, false);
      }
      for j in d.jsx_import_source.iter().chain(d.jsx_import_source_types.iter()) {
        note(&d.url, &format!("{}/jsx-runtime", j), false);
      }
    }
    if let Some(r) = &world.resolver {
      for v in r
        .map
        .values()
        .chain(r.types_map.values())
        .chain(r.resolve_types.values())
      {
        note("file:///w/", v, false);
      }
    }
    for (from, ts) in &world.imports {
      for t in ts {
        note(from, t, false);
      }
    }
    let entry_is_module = |u: &str| {
      matches!(world.remote.get(u), Some(Entry::Module { final_url: None, .. }))
        && !world.cache.contains_key(u)
    };
    // C1: a root's target that nothing imports gets the root defaults, also
    // when the root reaches it through explicit redirects
    for r in &world.roots {
      let mut hops = 0;
      let mut cur = r.clone();
      let mut clean = !world.cache.contains_key(&cur);
      while let Some(Entry::Redirect(to)) = world.remote.get(&cur) {
        hops += 1;
        cur = to.clone();
        clean &= !world.cache.contains_key(&cur);
        if hops > 8 {
          break;
        }
      }
      if hops > 8 || !clean || !entry_is_module(&cur) || cur.starts_with(REGISTRY) {
        continue;
      }
      let Some(d) = world.descs.get(&cur) else { continue };
      if referenced.contains_key(&cur) || d.unparsable {
        continue;
      }
      if !(d.lang.is_script() || matches!(d.lang, Lang::Unknown | Lang::Json)) {
        continue;
      }
      out.count(
        if hops > 0 { "probe.redirected_root_target" } else { "probe.plain_root_target" },
        1,
      );
      let ok = match shape.slots.get(&cur) {
        Some(SlotShape::Module(_)) => true,
        // an unknown media type taken as JavaScript may well not parse
        Some(SlotShape::Err { variant, .. }) => {
          d.lang == Lang::Unknown && variant == "Parse"
        }
        None => false,
      };
      if !ok {
        out.violation(
          "C01",
          "nothing-reachable-is-absent",
          format!(
            "root-target-not-a-module:{:?}:{}",
            d.lang,
            if hops > 0 { "redirected" } else { "direct" }
          ),
          format!(
            "root {} leads (over {} redirects) to {} which the world serves as a {:?} module imported by nothing else; its entry is {:?}",
            r, hops, cur, d.lang, shape.slots.get(&cur)
          ),
          ctx(json!({"root": r, "target": cur})),
        );
        return out;
      }
    }
    // C3: a Wasm module that is also imported as a module (here through an
    // alias) is a module entry, not the placeholder of its source-phase load
    if let Some(y) = &wasm_both_ways {
      let importer_loaded = world
        .roots
        .first()
        .is_some_and(|r| matches!(shape.slots.get(r), Some(SlotShape::Module(_))));
      if importer_loaded && sem.kind != 2 {
        out.count("probe.wasm_source_phase_and_module", 1);
        let ok = matches!(shape.slots.get(y), Some(SlotShape::Module(m)) if m.kind == "wasm");
        if !ok {
          out.violation(
            "C01",
            "nothing-reachable-is-absent",
            "wasm-module-left-as-asset-placeholder",
            format!(
              "{} is imported at source phase and, through an alias, as a module; its entry is {:?}",
              y,
              shape.slots.get(y)
            ),
            ctx(json!({"module": y})),
          );
          return out;
        }
      }
    }
    // C2: a script module that every importer imports plainly is never an
    // error entry (unless it does not parse)
    for (k, slot) in &shape.slots {
      let Some(d) = world.descs.get(k) else { continue };
      if !d.lang.is_script()
        || k.starts_with(REGISTRY)
        || !entry_is_module(k)
        || referenced.get(k).copied().unwrap_or(false)
      {
        continue;
      }
      let is_err = matches!(slot, SlotShape::Err { .. });
      if is_err != d.unparsable {
        out.violation(
          "C01",
          "nothing-reachable-is-absent",
          format!("script-module-entry-kind:{:?}:unparsable={}", d.lang, d.unparsable),
          format!(
            "{} is served as a {:?} module (unparsable = {}) and imported without attributes, yet its entry is {:?}",
            k, d.lang, d.unparsable, slot
          ),
          ctx(json!({"module": k})),
        );
        return out;
      }
    }
  }
  if shape.slots.len() >= 3 {
    out.nontrivial_key = Some(crate::rng::mix(
      world_hash(&world),
      crate::rng::hash_str(2, &serde_json::to_string(&sem).unwrap()),
    ));
  }
  let _ = tape.draw(Stream::Options, 1);
  out.sample = Some(json!({"roots": world.roots, "entries": shape.slots.len(), "modules_compared": compared, "kind": sem.kind}));
  out
}
