//! C17 — pruning types from a full graph gives the code-only graph.
//! Two-run relation: prune_types(build All under schedule 1) vs build
//! CodeOnly under schedule 2.

use std::collections::BTreeMap;

use serde_json::Value;
use serde_json::json;

use crate::checks::c04::truncate;
use crate::checks::common::*;
use crate::exec::RunEnd;
use crate::framework::CaseOutcome;
use crate::framework::CaseParams;
use crate::framework::CheckSpec;
use crate::framework::Tier;
use crate::run::SchedOpts;
use crate::run::SemOpts;
use crate::shape::ResShape;
use crate::shape::Shape;
use crate::shape::SlotShape;
use crate::shape::shape_of;
use crate::tape::Tape;
use crate::world::FaultPlan;
use crate::world::GenCfg;
use crate::tape::Stream;
use crate::world::{Entry, Form, Item, Lang, ModuleDesc, H_A};

pub fn spec() -> CheckSpec {
  CheckSpec {
    id: "C17",
    level: "exploration",
    rule: "case = generated world (same `type` attribute for all imports of one target; modules reachable only through types, only through code, through both; type-only failures; types dependencies; JSX import-source types; configured type imports). p = prune_types(build(kind=All)) under one drawn schedule, c = build(kind=CodeOnly) under another. Compared: set of specifiers with module kind or error text, redirects, code edges (key, target, dynamic flag) per module, valid() verdict; p must have no type resolution, types dependency, configured import, fast-check data and must report CodeOnly. distinct+non-trivial = distinct worlds in which pruning removed at least one entry or type resolution",
    assumptions: vec![
      "frozen cache and identity-keyed loader answers: both runs see the same sources",
      "error entries are compared by text without referrer (the first visitor of a shared failing specifier can differ between the two builds)",
    ],
    real_components: "deno_graph builder (both kinds), ModuleGraph::prune_types, SeenPendingCollection, valid()",
    stub_components: "all seams simulated",
    quick_cases: 8000,
    thorough_cases: 150000,
    run_case,
    systematic: |_| 0,
  }
}

/// Observable structure used by C17/C18 comparisons.
#[derive(Debug, Clone, PartialEq, Eq)]
pub struct Structure {
  /// spec -> "module:<kind>:<media>" | "error:<text>"
  pub entries: BTreeMap<String, String>,
  pub redirects: BTreeMap<String, String>,
  /// module -> [(key, code target, is_dynamic)]
  pub code_edges: BTreeMap<String, Vec<(String, String, bool)>>,
}

pub fn structure_of(shape: &Shape) -> Structure {
  let mut s = Structure {
    entries: BTreeMap::new(),
    redirects: shape.redirects.clone(),
    code_edges: BTreeMap::new(),
  };
  for (k, slot) in &shape.slots {
    match slot {
      SlotShape::Module(m) => {
        s.entries
          .insert(k.clone(), format!("module:{}:{}", m.kind, m.media_type));
        let mut edges = vec![];
        for d in &m.deps {
          match &d.code {
            ResShape::Ok(t, _) => {
              edges.push((d.key.clone(), t.clone(), d.is_dynamic))
            }
            ResShape::Err(v, text) => edges.push((
              d.key.clone(),
              format!("!{}:{}", v, text),
              d.is_dynamic,
            )),
            ResShape::None => {}
          }
        }
        // the statement speaks of the same edges, not of their order (a
        // type-only import of the same text can come first in the full graph)
        edges.sort();
        s.code_edges.insert(k.clone(), edges);
      }
      SlotShape::Err { text, .. } => {
        s.entries.insert(k.clone(), format!("error:{}", text));
      }
    }
  }
  s
}

pub fn structure_diff(
  a: &Structure,
  b: &Structure,
) -> Option<(String, String, Option<String>)> {
  for (k, v) in &a.entries {
    match b.entries.get(k) {
      None => {
        return Some((
          "entry-only-in-first".into(),
          format!("{} = {}", k, truncate(v, 120)),
          Some(k.clone()),
        ));
      }
      Some(w) if w != v => {
        // module:<kind> or error[<head of the message>]
        let class = |x: &str| {
          if let Some(e) = x.strip_prefix("error:") {
            let head: String = e
              .chars()
              .take_while(|c| *c != '"' && *c != '\n' && *c != '\'')
              .take(36)
              .collect();
            format!("error[{}]", head.trim())
          } else {
            x.split(':').take(2).collect::<Vec<_>>().join(":")
          }
        };
        return Some((
          format!("entry-differs:{}-vs-{}", class(v), class(w)),
          format!("{}: {} vs {}", k, truncate(v, 160), truncate(w, 160)),
          Some(k.clone()),
        ));
      }
      _ => {}
    }
  }
  for (k, v) in &b.entries {
    if !a.entries.contains_key(k) {
      return Some((
        "entry-only-in-second".into(),
        format!("{} = {}", k, truncate(v, 120)),
        Some(k.clone()),
      ));
    }
  }
  if a.redirects != b.redirects {
    return Some((
      "redirects-differ".into(),
      format!("{:?} vs {:?}", a.redirects, b.redirects),
      None,
    ));
  }
  for (k, v) in &a.code_edges {
    if let Some(w) = b.code_edges.get(k) {
      if v != w {
        return Some((
          "code-edges-differ".into(),
          format!("{}: {:?} vs {:?}", k, v, w),
          None,
        ));
      }
    }
  }
  None
}

/// Everything reachable from the roots through redirects, code edges (static
/// and dynamic) and source-map dependencies.
pub fn reachable_code(shape: &Shape) -> std::collections::BTreeSet<String> {
  let mut seen = std::collections::BTreeSet::new();
  let mut work: Vec<String> = shape.roots.clone();
  while let Some(s) = work.pop() {
    if !seen.insert(s.clone()) {
      continue;
    }
    match shape.slots.get(&s) {
      Some(SlotShape::Module(m)) => {
        for d in &m.deps {
          if let Some(t) = d.code.ok() {
            work.push(t.to_string());
          }
        }
        if let Some(r) = &m.source_map_dep {
          if let Some(t) = r.ok() {
            work.push(t.to_string());
          }
        }
      }
      Some(SlotShape::Err { .. }) => {}
      None => {}
    }
    // a specifier can be an entry and a redirect source at once (the loader
    // redirected it to something that answered with it as final specifier):
    // the redirect was made on the way to the entry, it is not an orphan
    if let Some(t) = shape.redirects.get(&s) {
      work.push(t.clone());
    }
  }
  seen
}

/// Everything reachable from the roots and configured imports through every
/// recorded resolution (code, type, types dependency, source map) and
/// redirects.
pub fn reachable_all(shape: &Shape) -> std::collections::BTreeSet<String> {
  let mut seen = std::collections::BTreeSet::new();
  let mut work: Vec<String> = shape.roots.clone();
  for (_, deps) in &shape.imports {
    for d in deps {
      work.extend(d.code.ok().map(|s| s.to_string()));
      work.extend(d.typ.ok().map(|s| s.to_string()));
    }
  }
  while let Some(s) = work.pop() {
    if !seen.insert(s.clone()) {
      continue;
    }
    match shape.slots.get(&s) {
      Some(SlotShape::Module(m)) => {
        for d in &m.deps {
          work.extend(d.code.ok().map(|s| s.to_string()));
          work.extend(d.typ.ok().map(|s| s.to_string()));
        }
        if let Some((_, r)) = &m.types_dep {
          work.extend(r.ok().map(|s| s.to_string()));
        }
        if let Some(r) = &m.source_map_dep {
          work.extend(r.ok().map(|s| s.to_string()));
        }
      }
      Some(SlotShape::Err { .. }) => {}
      None => {}
    }
    // a specifier can be an entry and a redirect source at once (the loader
    // redirected it to something that answered with it as final specifier):
    // the redirect was made on the way to the entry, it is not an orphan
    if let Some(t) = shape.redirects.get(&s) {
      work.push(t.clone());
    }
  }
  seen
}

fn gen_cfg() -> GenCfg {
  let mut cfg = GenCfg::basic();
  cfg.mixed_attrs = false;
  cfg
}

pub fn run_case(tape: &mut Tape, _tier: Tier, _p: &CaseParams) -> CaseOutcome {
  let mut out = CaseOutcome::default();
  let mut world = crate::checks::worlds::gen_any_world(tape, &gen_cfg());
  // no lockfile: which request meets a mismatching checksum first (direct, or
  // through an alias that bypasses it) is C05's subject, not pruning's
  crate::checks::worlds::strip_lockfile(&mut world);
  if tape.draw(Stream::World, 8) == 7 {
    // a specifier that is both a redirect source and an entry: y redirects
    // (explicitly) to x, and x is served with y as its final specifier, so
    // the module is stored under y. It has a type-only and a code import.
    let y = format!("{}loop_y.ts", H_A);
    let x = format!("{}loop_x.ts", H_A);
    let mut d = ModuleDesc::new(y.clone(), Lang::Ts);
    d.items.push(Item::new(Form::TypeOnly, "./loop_types.ts"));
    d.items.push(Item::new(Form::SideEffect, "./loop_dep.ts"));
    let bytes = d.render();
    world.add_desc(ModuleDesc::new(format!("{}loop_types.ts", H_A), Lang::Ts));
    world.add_desc(ModuleDesc::new(format!("{}loop_dep.ts", H_A), Lang::Ts));
    world.remote.insert(y.clone(), Entry::Redirect(x.clone()));
    world.remote.insert(
      x,
      Entry::Module {
        bytes,
        headers: vec![],
        final_url: Some(y.clone()),
      },
    );
    let importer = world
      .roots
      .first()
      .and_then(|r| world.descs.get(r))
      .filter(|d| d.lang.is_script() && !d.lang.is_declaration())
      .cloned();
    if let Some(mut imp) = importer {
      imp.items.push(Item::new(Form::SideEffect, y));
      world.add_desc(imp);
      // an alias of the edited module serves what the module serves
      crate::world::refresh_aliases(&mut world);
      out.count("probe.entry_that_is_also_a_redirect_source", 1);
    }
  }
  let mut sem = SemOpts::draw(tape);
  sem.with_locker = false;
  sem.kind = 0;
  // prune_types cannot know that the build skipped dynamic dependencies (the
  // graph does not record the option), so the relation is checked for builds
  // that follow them
  sem.skip_dynamic_deps = false;
  // whether a chain at the redirect limit is cut depends on which edge met it
  // first (a recorded redirect is not counted again); keep the limit away
  // from the generated chain lengths
  sem.max_redirects = 10;
  let sched1 = SchedOpts::draw(tape);
  let h1 = draw_hash_seed(tape);
  let t0 = std::mem::replace(tape, Tape::replay(Default::default()));
  let r1 = build_fresh(
    &world,
    &FaultPlan::default(),
    &sem,
    &sched1,
    t0,
    h1,
    false,
    |session, report, _| {
      if report.end != RunEnd::Done {
        return None;
      }
      let before = shape_of(&session.graph);
      session.graph.prune_types();
      let after = shape_of(&session.graph);
      let kind_ok =
        session.graph.graph_kind() == deno_graph::GraphKind::CodeOnly;
      let imports_empty = session.graph.imports.is_empty();
      let valid = session
        .graph
        .valid()
        .map_err(|e| crate::refwalk::err_key(&e));
      Some((before, after, kind_ok, imports_empty, valid))
    },
  );
  let (b1, t1) = match r1 {
    Ok(x) => x,
    Err(e) => {
      out.harness_error = Some(format!("run thread panicked: {}", e));
      return out;
    }
  };
  *tape = t1;
  add_summary(&mut out, &b1.summary, &sched1);
  let mut sem2 = sem.clone();
  sem2.kind = 1;
  let sched2 = SchedOpts::draw(tape);
  let h2 = draw_hash_seed(tape);
  let t0 = std::mem::replace(tape, Tape::replay(Default::default()));
  // the code-only reference is built from the same roots and sources;
  // configured imports are type imports by definition and are not given to it
  let mut world_code = world.clone();
  world_code.imports.clear();
  let r2 = build_fresh(
    &world_code,
    &FaultPlan::default(),
    &sem2,
    &sched2,
    t0,
    h2,
    false,
    |session, report, _| {
      if report.end != RunEnd::Done {
        return None;
      }
      let valid = session
        .graph
        .valid()
        .map_err(|e| crate::refwalk::err_key(&e));
      Some((shape_of(&session.graph), valid))
    },
  );
  let (b2, t2) = match r2 {
    Ok(x) => x,
    Err(e) => {
      out.harness_error = Some(format!("run thread panicked: {}", e));
      return out;
    }
  };
  *tape = t2;
  add_summary(&mut out, &b2.summary, &sched2);
  let (Some((before, pruned, kind_ok, imports_empty, valid_p)), Some((code, valid_c))) =
    (b1.extra, b2.extra)
  else {
    out.count("abnormal_end", 1);
    return out;
  };
  let ctx = |extra: Value| {
    json!({"what": extra, "sem": sem, "sched_all": sched1, "sched_code": sched2, "world": world.to_json()})
  };
  if !kind_ok {
    out.violation(
      "C17",
      "reports-code-only",
      "graph-kind-not-code-only",
      "pruned graph does not report GraphKind::CodeOnly",
      ctx(json!(null)),
    );
    return out;
  }
  if !imports_empty {
    out.violation(
      "C17",
      "no-type-data-left",
      "imports-left",
      "pruned graph still has configured type imports",
      ctx(json!(null)),
    );
    return out;
  }
  for (k, slot) in &pruned.slots {
    if let SlotShape::Module(m) = slot {
      let left = m.types_dep.is_some()
        || m.fc_deps.is_some()
        || m.deps.iter().any(|d| d.typ != ResShape::None);
      if left {
        out.violation(
          "C17",
          "no-type-data-left",
          "type-data-left",
          format!("pruned module {} still carries type resolutions / types dependency / fast-check data", k),
          ctx(json!({"module": k})),
        );
        return out;
      }
    }
  }
  if !world.imports.is_empty() {
    // Configured imports are type imports: they feed the full graph only, so
    // the two builds do not start from the same inputs and the structural
    // comparison would compare different worlds. The assertions above (no
    // configured imports / type data left, reports code-only) still ran.
    out.count("with_configured_imports_structure_skipped", 1);
    return out;
  }
  // a requirement that both graphs resolved, but to different versions: the
  // full graph unified it with a version selected for a type-only import
  if let (Some(ma), Some(mc)) = (
    b1.obs["packages"]["mappings"].as_object(),
    b2.obs["packages"]["mappings"].as_object(),
  ) {
    for (req, nv) in mc {
      if let Some(nva) = ma.get(req) {
        if nva != nv {
          out.violation(
            "C17",
            "pruned-equals-code-only",
            "jsr-version-selection-differs-between-kinds",
            format!(
              "requirement {} resolves to {} in the full graph (kept by prune_types) but to {} in the code-only build: a version selected for a type-only import took part in unification",
              req, nva, nv
            ),
            ctx(json!({"req": req, "all": nva, "code_only": nv})),
          );
          return out;
        }
      }
    }
  }
  if let Some((spec, ta, tc)) = jsr_redirect_difference(&b1.obs, &b2.obs) {
    out.violation(
      "C17",
      "pruned-equals-code-only",
      "jsr-version-selection-differs-between-kinds",
      format!(
        "{} redirects to {} in the full graph (kept by prune_types) and to {} in the code-only build",
        spec, ta, tc
      ),
      ctx(json!({"spec": spec})),
    );
    return out;
  }
  let sp = structure_of(&pruned);
  // Entries of the code-only build that nothing reaches any more (their only
  // importer became an error after its dependencies had been visited, e.g. a
  // failed deferred registry content load) are C01's business; pruning
  // starts from the roots and cannot keep them.
  let reach = reachable_code(&code);
  let orphans = code
    .slots
    .keys()
    .filter(|k| !reach.contains(*k))
    .count() as u64;
  out.count("code_only_orphans_ignored", orphans);
  let mut sc = structure_of(&code);
  sc.entries.retain(|k, _| reach.contains(k));
  sc.code_edges.retain(|k, _| reach.contains(k));
  sc.redirects.retain(|k, _| reach.contains(k));
  if let Some((class, what, key)) = structure_diff(&sp, &sc) {
    let class = if class.starts_with("entry-differs")
      && key
        .as_ref()
        .is_some_and(|k| crate::checks::worlds::context_sensitive(&world, k))
    {
      format!("first-visitor-context:{}", class)
    } else {
      class
    };
    out.violation(
      "C17",
      "pruned-equals-code-only",
      format!("prune-vs-codeonly:{}", class),
      format!("pruned All-graph vs CodeOnly build differ: {}", what),
      ctx(json!({"class": class, "what": what})),
    );
    return out;
  }
  let vp = valid_p.map_err(|e| (e.0, e.1, e.2));
  let vc = valid_c.map_err(|e| (e.0, e.1, e.2));
  if vp.is_ok() != vc.is_ok() {
    out.violation(
      "C17",
      "same-validation-verdict",
      "valid-verdict-differs",
      format!("valid() on pruned graph = {:?}, on code-only build = {:?}", vp, vc),
      ctx(json!(null)),
    );
    return out;
  }
  let removed = before.slots.len() != pruned.slots.len()
    || before.slots.values().any(|s| match s {
      SlotShape::Module(m) => {
        m.types_dep.is_some() || m.deps.iter().any(|d| d.typ != ResShape::None)
      }
      _ => false,
    });
  if removed {
    out.nontrivial_key = Some(world_hash(&world));
    out.count("probe.prune_removed_something", 1);
  }
  out.sample = Some(json!({
    "roots": world.roots, "entries_all": before.slots.len(),
    "entries_pruned": pruned.slots.len(), "entries_code_only": code.slots.len(),
  }));
  out
}
