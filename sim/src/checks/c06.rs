//! C06 — JSR requirements resolve to the specified version. History monitor
//! over `Reporter::on_resolve` events against a small selection reference,
//! driven through the real builder and a simulated registry.

use std::collections::BTreeMap;
use std::collections::BTreeSet;

use deno_semver::Version;
use deno_semver::VersionReq;
use serde_json::Value;
use serde_json::json;

use crate::checks::common::*;
use crate::checks::worlds::PKG_NAMES;
use crate::checks::worlds::REQ_POOL;
use crate::checks::worlds::T_CUTOFF;
use crate::checks::worlds::VERSION_POOL;
use crate::exec::RunEnd;
use crate::framework::CaseOutcome;
use crate::framework::CaseParams;
use crate::framework::CheckSpec;
use crate::framework::Tier;
use crate::run::SchedOpts;
use crate::run::SemOpts;
use crate::seams::ReportEvent;
use crate::tape::Stream;
use crate::tape::Tape;
use crate::world::*;

pub fn spec() -> CheckSpec {
  CheckSpec {
    id: "C06",
    level: "exploration",
    rule: "systematic family through the simulated registry: versions subset of {0.9.0,1.0.0,1.1.0,1.2.0-pre,1.2.0,2.0.0} (all 63 non-empty) x yanked pattern {none, lowest, highest, all} x creation dates {absent, highest after cutoff, all after cutoff} x requirement {*, ^1, ~1.1, 1.0.0, >=1.1, 2, ^3, 1} x cutoff {off,on} x excluded {no, by name / prefix}; seeded cases add several requirements on one package in different visit positions, lockfile-seeded selections (inside and outside the registry's version list), cached version manifests with prefer_cached_jsr_versions, stale cached meta.json (cache-busting restart on an empty graph, single-package reload on a non-empty one), several packages. Every on_resolve(req, nv) event is compared with a 5-tier selection reference computed from the meta.json body most recently delivered for that package, the versions selected so far in this graph (lockfile seeds included), cached manifests, cutoff and exclusions; final mappings / jsr: redirects / used-yanked set / not-found errors (with the date hint) are checked against the same reference; distinct+non-trivial = distinct (registry state, requirement list, options) with at least one resolution event or not-found error",
    assumptions: vec![
      "deno_semver's VersionReq::matches and Version ordering are trusted",
      "the reference counts lockfile-seeded selections among the already selected versions for the whole build, as the statement does",
    ],
    real_components: "deno_graph builder (resolve_pending_jsr_specifiers, restart rules, probe of cached manifests), JsrPackageVersionResolver, PackageSpecifiers, JsrMetadataStore, fill_from_lockfile",
    stub_components: "Loader serving the simulated registry and cache tier, Reporter recording on_resolve, Executor, Locker",
    quick_cases: 12000,
    thorough_cases: 400000,
    run_case,
    systematic: |t| match t {
      Tier::Quick => 6000,
      Tier::Thorough => family_size(),
    },
  }
}

const YANK_PATTERNS: u64 = 4;
const DATE_PATTERNS: u64 = 3;
const SYS_REQS: [&str; 8] = ["", "@^1", "@~1.1", "@1.0.0", "@>=1.1", "@2", "@^3", "@1"];

fn family_size() -> u64 {
  63 * YANK_PATTERNS * DATE_PATTERNS * SYS_REQS.len() as u64 * 2 * 2
}

fn simple_version(
  yanked: bool,
  created_at: Option<i64>,
) -> PkgVersion {
  let mut files = BTreeMap::new();
  files.insert("/mod.ts".to_string(), ModuleDesc::new("", Lang::Ts));
  PkgVersion {
    yanked,
    created_at,
    exports: Exports::Single("./mod.ts".into()),
    files,
    embed: Embed::None,
    manifest_omit: Default::default(),
    manifest_bad_prefix: Default::default(),
    lockfile_checksum: None,
    manifest_missing: false,
  }
}

fn systematic_world(idx: u64, quick: bool) -> (World, SemOpts, String) {
  // in quick mode the index is spread over the family
  let idx = if quick {
    (idx.wrapping_mul(7919)) % family_size()
  } else {
    idx
  };
  let mut i = idx;
  let subset = 1 + i % 63;
  i /= 63;
  let yank = i % YANK_PATTERNS;
  i /= YANK_PATTERNS;
  let date = i % DATE_PATTERNS;
  i /= DATE_PATTERNS;
  let req = SYS_REQS[(i % SYS_REQS.len() as u64) as usize];
  i /= SYS_REQS.len() as u64;
  let cutoff = i % 2 == 1;
  i /= 2;
  let excluded = i % 2 == 1;
  let versions: Vec<&str> = VERSION_POOL
    .iter()
    .enumerate()
    .filter(|(k, _)| subset & (1 << k) != 0)
    .map(|(_, v)| *v)
    .collect();
  let mut pkg = Package::default();
  for (k, v) in versions.iter().enumerate() {
    let yanked = match yank {
      0 => false,
      1 => k == 0,
      2 => k == versions.len() - 1,
      _ => true,
    };
    let created = match date {
      0 => None,
      1 => {
        if k == versions.len() - 1 {
          Some(T_CUTOFF + 86_400)
        } else {
          Some(T_CUTOFF - 86_400)
        }
      }
      _ => Some(T_CUTOFF + 86_400),
    };
    pkg.versions
      .insert(v.to_string(), simple_version(yanked, created));
  }
  let mut w = World::default();
  w.registry.packages.insert("@a/b".into(), pkg);
  w.render_registry(&crate::checks::worlds::embed_info);
  let mut main = ModuleDesc::new(format!("{}main0.ts", H_FILE), Lang::Ts);
  main
    .items
    .push(Item::new(Form::Named, format!("jsr:@a/b{}", req)));
  w.add_desc(main);
  w.roots.push(format!("{}main0.ts", H_FILE));
  let mut sem = SemOpts::default();
  if cutoff {
    sem.cutoff = Some(T_CUTOFF);
  }
  if excluded {
    if idx % 3 == 0 {
      sem.exclude_pkgs = vec!["@a/b".into()];
    } else {
      sem.exclude_prefixes = vec!["@a/".into()];
    }
  }
  (
    w,
    sem,
    format!(
      "versions={:?} yank={} date={} req={:?} cutoff={} excluded={}",
      versions, yank, date, req, cutoff, excluded
    ),
  )
}

fn seeded_world(tape: &mut Tape) -> (World, SemOpts, String) {
  let mut w = World::default();
  let npk = tape.small(Stream::World, 1, 2);
  let mut names = vec![];
  for _ in 0..npk {
    let n = *tape.pick(Stream::World, &PKG_NAMES);
    if !names.contains(&n) {
      names.push(n);
    }
  }
  for name in &names {
    let mut pkg = Package::default();
    let nv = tape.range(Stream::World, 1, 5);
    for _ in 0..nv {
      let v = *tape.pick(Stream::World, &VERSION_POOL);
      let yanked = tape.draw(Stream::World, 4) == 3;
      let created = match tape.draw(Stream::World, 4) {
        0 => None,
        1 => Some(T_CUTOFF - 86_400),
        2 => Some(T_CUTOFF),
        _ => Some(T_CUTOFF + 86_400),
      };
      pkg.versions
        .entry(v.to_string())
        .or_insert_with(|| simple_version(yanked, created));
    }
    if tape.draw(Stream::World, 4) == 3 {
      let mut subset = BTreeSet::new();
      for v in pkg.versions.keys() {
        if tape.draw(Stream::World, 2) == 0 {
          subset.insert(v.clone());
        }
      }
      pkg.stale_cached_meta = Some(subset);
    }
    w.registry.packages.insert(name.to_string(), pkg);
  }
  w.render_registry(&crate::checks::worlds::embed_info);
  // cached version manifests
  let prefer_cached = tape.draw(Stream::Options, 3) == 2;
  for (name, pkg) in &w.registry.packages.clone() {
    for v in pkg.versions.keys() {
      if tape.draw(Stream::World, 2) == 1 {
        w.cache
          .insert(format!("{}{}/{}_meta.json", REGISTRY, name, v), None);
      }
    }
  }
  // program: several modules so that requirements meet in different visit
  // positions (static, dynamic, nested)
  let nmods = tape.small(Stream::World, 1, 3);
  for m in 0..nmods {
    let mut d = ModuleDesc::new(format!("{}main{}.ts", H_FILE, m), Lang::Ts);
    let k = tape.range(Stream::World, 1, 3);
    for _ in 0..k {
      let name = *tape.pick(Stream::World, &names);
      let req = *tape.pick(Stream::World, &REQ_POOL);
      let spec = format!("jsr:{}{}", name, req);
      if d.items.iter().any(|i| i.spec == spec) {
        continue;
      }
      let form = *tape.pick(
        Stream::World,
        &[Form::Named, Form::Named, Form::Dynamic, Form::TypeOnly],
      );
      d.items.push(Item::new(form, spec));
    }
    if m + 1 < nmods {
      d.items.push(Item::new(
        *tape.pick(Stream::World, &[Form::SideEffect, Form::Dynamic]),
        format!("./main{}.ts", m + 1),
      ));
    }
    w.add_desc(d);
  }
  w.roots.push(format!("{}main0.ts", H_FILE));
  // lockfile seeds
  if tape.draw(Stream::World, 3) == 2 {
    w.lockfile.present = true;
    let n = tape.range(Stream::World, 1, 2);
    for _ in 0..n {
      let name = *tape.pick(Stream::World, &names);
      let req = *tape.pick(Stream::World, &REQ_POOL);
      let v = *tape.pick(Stream::World, &VERSION_POOL);
      // a lockfile pins a requirement to a version that satisfies it (the
      // version need not be listed by the registry any more)
      if crate::checks::worlds::req_matches(req, v) {
        w.lockfile
          .jsr_specifiers
          .insert(format!("jsr:{}{}", name, req), v.to_string());
      }
    }
  }
  let mut sem = SemOpts::default();
  sem.prefer_cached_jsr = prefer_cached;
  sem.with_locker = w.lockfile.present;
  if tape.draw(Stream::Options, 2) == 1 {
    sem.cutoff = Some(T_CUTOFF);
    match tape.draw(Stream::Options, 4) {
      2 => sem.exclude_pkgs = vec![names[0].to_string()],
      3 => sem.exclude_prefixes = vec!["@a/".into()],
      _ => {}
    }
  }
  if tape.draw(Stream::Options, 4) == 3 {
    sem.prelude_roots =
      vec!["data:text/javascript,export default 1;".to_string()];
  }
  (w, sem, "seeded".into())
}

#[derive(Clone, Debug)]
struct VInfo {
  yanked: bool,
  created_at: Option<i64>,
}

fn parse_meta(bytes: &[u8]) -> Option<BTreeMap<String, VInfo>> {
  let v: Value = serde_json::from_slice(bytes).ok()?;
  let mut m = BTreeMap::new();
  for (k, info) in v.get("versions")?.as_object()? {
    let created_at = info
      .get("createdAt")
      .and_then(|c| c.as_str())
      .and_then(|s| chrono::DateTime::parse_from_rfc3339(s).ok())
      .map(|d| d.timestamp());
    m.insert(
      k.clone(),
      VInfo {
        yanked: info.get("yanked").and_then(|y| y.as_bool()).unwrap_or(false),
        created_at,
      },
    );
  }
  Some(m)
}

#[derive(Debug, PartialEq, Eq)]
enum Selected {
  Version { v: String, yanked: bool, tier: u8 },
  NotFound { date_hint: bool },
}

/// The selection reference (the statement's tiers).
fn jsr_select(
  req: &VersionReq,
  already: &BTreeSet<String>,
  info: &BTreeMap<String, VInfo>,
  cached: &BTreeSet<String>,
  cutoff: Option<i64>,
) -> Selected {
  let parse = |s: &str| Version::parse_standard(s).ok();
  let max_of = |cands: Vec<&String>| -> Option<String> {
    cands
      .into_iter()
      .filter_map(|s| parse(s).map(|v| (v, s)))
      .filter(|(v, _)| req.matches(v))
      .max_by(|a, b| a.0.cmp(&b.0))
      .map(|(_, s)| s.clone())
  };
  let date_ok = |i: &VInfo| match (cutoff, i.created_at) {
    (Some(c), Some(t)) => t < c,
    _ => true,
  };
  // 1. already selected in this graph (date ignored)
  if let Some(v) = max_of(already.iter().collect()) {
    let yanked = info.get(&v).map(|i| i.yanked).unwrap_or(false);
    return Selected::Version { v, yanked, tier: 1 };
  }
  // 2. cached manifests (only when the mode is on and something is cached)
  if !cached.is_empty() {
    let c: Vec<&String> = info
      .iter()
      .filter(|(v, i)| !i.yanked && cached.contains(*v) && date_ok(i))
      .map(|(v, _)| v)
      .collect();
    if let Some(v) = max_of(c) {
      return Selected::Version {
        v,
        yanked: false,
        tier: 2,
      };
    }
  }
  // 3. unyanked
  let c: Vec<&String> = info
    .iter()
    .filter(|(_, i)| !i.yanked && date_ok(i))
    .map(|(v, _)| v)
    .collect();
  if let Some(v) = max_of(c) {
    return Selected::Version {
      v,
      yanked: false,
      tier: 3,
    };
  }
  // 4. yanked
  let c: Vec<&String> = info
    .iter()
    .filter(|(_, i)| i.yanked && date_ok(i))
    .map(|(v, _)| v)
    .collect();
  if let Some(v) = max_of(c) {
    return Selected::Version {
      v,
      yanked: true,
      tier: 4,
    };
  }
  // 5. nothing: was a match excluded by date?
  let any_match = info
    .keys()
    .filter_map(|s| parse(s))
    .any(|v| req.matches(&v));
  Selected::NotFound {
    date_hint: any_match && cutoff.is_some(),
  }
}

fn split_req(s: &str) -> Option<(String, VersionReq)> {
  // "@scope/name@req" or "@scope/name"
  match s.get(1..).and_then(|r| r.find('@')) {
    Some(i) => {
      let at = i + 1;
      let name = s[..at].to_string();
      let req = VersionReq::parse_from_specifier(&s[at + 1..]).ok()?;
      Some((name, req))
    }
    None => Some((
      s.to_string(),
      VersionReq::parse_from_specifier("*").ok()?,
    )),
  }
}

fn cutoff_for(sem: &SemOpts, name: &str) -> Option<i64> {
  let c = sem.cutoff?;
  if sem.exclude_pkgs.iter().any(|p| p == name)
    || sem.exclude_prefixes.iter().any(|p| name.starts_with(p.as_str()))
  {
    None
  } else {
    Some(c)
  }
}

pub fn run_case(tape: &mut Tape, tier: Tier, p: &CaseParams) -> CaseOutcome {
  let mut out = CaseOutcome::default();
  let (world, sem, label) = match p.systematic_index {
    Some(i) => systematic_world(i, tier == Tier::Quick),
    None => seeded_world(tape),
  };
  let sched = SchedOpts::draw(tape);
  let hash_seed = draw_hash_seed(tape);
  let t0 = std::mem::replace(tape, Tape::replay(Default::default()));
  let res = build_fresh(
    &world,
    &FaultPlan::default(),
    &sem,
    &sched,
    t0,
    hash_seed,
    false,
    |session, report, _| {
      let mut g2 = session.graph.packages.clone();
      let yanked: BTreeSet<String> =
        g2.used_yanked_packages().map(|n| n.to_string()).collect();
      (report.reports.clone(), report.loads.clone(), yanked)
    },
  );
  let (built, t1) = match res {
    Ok(x) => x,
    Err(e) => {
      out.harness_error = Some(format!("run thread panicked: {}", e));
      return out;
    }
  };
  *tape = t1;
  add_summary(&mut out, &built.summary, &sched);
  if built.end != RunEnd::Done {
    out.count("abnormal_end", 1);
    return out;
  }
  let (reports, loads, used_yanked) = built.extra;
  let ctx = |extra: Value| {
    json!({"what": extra, "member": label, "sem": sem, "sched": sched, "hash_seed": hash_seed, "world": world.to_json()})
  };
  // lockfile-seeded selections
  let mut seeds: BTreeMap<String, BTreeSet<String>> = BTreeMap::new();
  if world.lockfile.present {
    for (k, v) in &world.lockfile.jsr_specifiers {
      if let Some(r) = k.strip_prefix("jsr:") {
        // name = up to second '@'
        let name = match r[1..].find('@') {
          Some(i) => &r[..i + 1],
          None => r,
        };
        // only what Session::new could actually hand to fill_from_lockfile
        if Version::parse_standard(v).is_ok()
          && deno_semver::jsr::JsrDepPackageReq::from_str(k).is_ok()
        {
          seeds
            .entry(name.to_string())
            .or_default()
            .insert(v.clone());
        }
      }
    }
  }
  // restart points: the first root requested again
  let root0 = world.roots.first().cloned().unwrap_or_default();
  let restart_seqs: Vec<u64> = loads
    .iter()
    .filter(|l| l.id.url == root0 && l.id.nth >= 1 && l.id.cs == CS_USE)
    .map(|l| l.seq)
    .collect();
  out.count("probe.cache_busting_restart", restart_seqs.len() as u64);
  // (how often metadata is re-requested is not part of the statement; counted
  // as reach probes only)
  let mut reloads: BTreeMap<String, u64> = BTreeMap::new();
  for l in &loads {
    if l.id.cs == CS_RELOAD && l.id.url.ends_with("/meta.json") {
      *reloads.entry(l.id.url.clone()).or_insert(0) += 1;
    }
  }
  out.count(
    "probe.single_package_metadata_reload",
    (restart_seqs.is_empty() && !reloads.is_empty()) as u64,
  );
  let mut selected: BTreeMap<String, BTreeSet<String>> = seeds.clone();
  let mut last_for_req: BTreeMap<String, String> = BTreeMap::new();
  let mut expected_yanked: BTreeSet<String> = BTreeSet::new();
  let mut passed_restart = restart_seqs.is_empty();
  let mut events = 0u64;
  for (seq, ev) in &reports {
    let ReportEvent::OnResolve(req_s, nv_s) = ev else {
      continue;
    };
    events += 1;
    if !passed_restart && *seq > restart_seqs[0] {
      // the graph was rebuilt from scratch: selections made by the first
      // pass are gone, lockfile seeds are not
      selected = seeds.clone();
      last_for_req.clear();
      expected_yanked.clear();
      passed_restart = true;
    }
    let Some((name, req)) = split_req(req_s) else {
      out.harness_error = Some(format!("cannot parse requirement {:?}", req_s));
      return out;
    };
    let nv_version = nv_s[name.len() + 1..].to_string();
    // meta.json most recently delivered for this package before the event
    let meta_url = format!("{}{}/meta.json", REGISTRY, name);
    let info = loads
      .iter()
      .filter(|l| l.id.url == meta_url && l.seq < *seq && l.answer == "module")
      .next_back()
      .and_then(|l| l.served.as_ref())
      .and_then(|b| parse_meta(b));
    let Some(info) = info else {
      out.harness_error =
        Some(format!("no meta.json delivered before on_resolve({})", req_s));
      return out;
    };
    let cached: BTreeSet<String> = if sem.prefer_cached_jsr {
      info
        .keys()
        .filter(|v| {
          world
            .cache
            .contains_key(&format!("{}{}/{}_meta.json", REGISTRY, name, v))
        })
        .cloned()
        .collect()
    } else {
      BTreeSet::new()
    };
    let already = selected.get(&name).cloned().unwrap_or_default();
    let expect =
      jsr_select(&req, &already, &info, &cached, cutoff_for(&sem, &name));
    match &expect {
      Selected::Version { v, yanked, tier } => {
        out.count(&format!("probe.tier{}_selection", tier), 1);
        if *v != nv_version {
          out.violation(
            "C06",
            "selection-monitor",
            format!("wrong-version:tier{}", tier),
            format!(
              "on_resolve({}, {}): the reference selects {} (tier {}; already selected {:?}, registry {:?}, cached {:?}, cutoff {:?})",
              req_s, nv_s, v, tier, already, info, cached, cutoff_for(&sem, &name)
            ),
            ctx(json!({"req": req_s, "got": nv_s, "expected": v, "tier": tier})),
          );
          return out;
        }
        if *yanked {
          expected_yanked.insert(nv_s.clone());
        }
      }
      Selected::NotFound { .. } => {
        out.violation(
          "C06",
          "selection-monitor",
          "resolved-although-nothing-qualifies",
          format!(
            "on_resolve({}, {}) but no version qualifies (already {:?}, registry {:?})",
            req_s, nv_s, already, info
          ),
          ctx(json!({"req": req_s, "got": nv_s})),
        );
        return out;
      }
    }
    selected.entry(name).or_default().insert(nv_version);
    last_for_req.insert(req_s.clone(), nv_s.clone());
  }
  out.count("resolution_events", events);
  // final mappings agree with the last event per requirement. The package
  // table keys requirements by range (`@a/b@1` and `@a/b@^1` are one key), so
  // the last event of the whole equivalence class counts.
  let empty = serde_json::Map::new();
  let mappings = built.obs["packages"]["mappings"].as_object().unwrap_or(&empty);
  let parse_req = |s: &str| deno_semver::package::PackageReq::from_str(s).ok();
  let ordered_events: Vec<(&String, &String)> = reports
    .iter()
    .filter(|(seq, _)| restart_seqs.is_empty() || *seq > restart_seqs[0])
    .filter_map(|(_, e)| match e {
      ReportEvent::OnResolve(a, b) => Some((a, b)),
      _ => None,
    })
    .collect();
  for (req_s, _) in &last_for_req {
    let Some(req) = parse_req(req_s) else { continue };
    let last = ordered_events
      .iter()
      .rev()
      .find(|(r, _)| {
        parse_req(r).is_some_and(|x| x.cmp(&req) == std::cmp::Ordering::Equal)
      })
      .map(|(_, nv)| (*nv).clone());
    let key = mappings.iter().find(|(k, _)| {
      parse_req(k).is_some_and(|x| x.cmp(&req) == std::cmp::Ordering::Equal)
    });
    match (key, &last) {
      (Some((_, m)), Some(nv)) if m.as_str() == Some(nv.as_str()) => {}
      (other, _) => {
        out.violation(
          "C06",
          "mapping-agrees-with-selection",
          "mapping-differs-from-last-selection",
          format!(
            "packages.mappings() has {:?} for requirement {} but the last selection for it was {:?}",
            other, req_s, last
          ),
          ctx(json!({"req": req_s})),
        );
        return out;
      }
    }
  }
  // used yanked packages
  if used_yanked != expected_yanked {
    out.violation(
      "C06",
      "used-yanked-reporting",
      "used-yanked-set-differs",
      format!(
        "used_yanked_packages() = {:?}, expected {:?}",
        used_yanked, expected_yanked
      ),
      ctx(json!(null)),
    );
    return out;
  }
  // not-found errors: against the registry as served remotely
  let slots = built.obs["slots"].as_object().unwrap_or(&empty);
  let mut notfound = 0u64;
  for (spec, v) in slots {
    let Some(rest) = spec.strip_prefix("jsr:") else {
      continue;
    };
    let Some(err) = v.get("error").and_then(|e| e.as_str()) else {
      continue;
    };
    if err.starts_with("Version tag not supported") {
      out.count("probe.version_tag_rejected", 1);
      // no metadata request may have been made for a tag requirement alone
      continue;
    }
    if !err.starts_with("Could not find version of") {
      continue;
    }
    notfound += 1;
    // strip a sub path
    let rest = rest.strip_prefix('/').unwrap_or(rest);
    let mut parts = rest.splitn(3, '/');
    let scope = parts.next().unwrap_or("");
    let name_req = parts.next().unwrap_or("");
    let (pname, req_txt) = match name_req.find('@') {
      Some(i) => (&name_req[..i], &name_req[i + 1..]),
      None => (name_req, "*"),
    };
    let name = format!("{}/{}", scope, pname);
    let Ok(req) = VersionReq::parse_from_specifier(req_txt) else {
      continue;
    };
    let meta_url = format!("{}{}/meta.json", REGISTRY, name);
    let remote_info = match world.remote.get(&meta_url) {
      Some(Entry::Module { bytes, .. }) => parse_meta(bytes),
      _ => None,
    };
    let Some(info) = remote_info else { continue };
    // only the lockfile seeds were certainly selected at the time it failed
    let already = seeds.get(&name).cloned().unwrap_or_default();
    let expect = jsr_select(
      &req,
      &already,
      &info,
      &BTreeSet::new(),
      cutoff_for(&sem, &name),
    );
    match expect {
      Selected::NotFound { date_hint } => {
        let has_hint = err.contains("A newer matching version was found");
        if has_hint != date_hint {
          out.violation(
            "C06",
            "not-found-date-hint",
            format!("date-hint:{}-expected-{}", has_hint, date_hint),
            format!(
              "not-found error for {} {} the excluded-by-date hint, expected {}: {}",
              spec,
              if has_hint { "carries" } else { "lacks" },
              date_hint,
              err
            ),
            ctx(json!({"spec": spec})),
          );
          return out;
        }
      }
      Selected::Version { v, tier, .. } => {
        // the final (reloaded) registry has a qualifying version: a
        // not-found error is only legitimate when the metadata delivered to
        // the build lacked it and no further reload was allowed
        let delivered_all = loads
          .iter()
          .filter(|l| l.id.url == meta_url && l.answer == "module")
          .filter_map(|l| l.served.as_ref().and_then(|b| parse_meta(b)))
          .any(|i| i.contains_key(&v));
        if delivered_all {
          out.violation(
            "C06",
            "not-found-only-when-nothing-qualifies",
            format!("not-found-despite-tier{}", tier),
            format!(
              "{} is a not-found error although version {} qualifies (tier {}) and the registry data delivered to the build lists it",
              spec, v, tier
            ),
            ctx(json!({"spec": spec, "expected": v})),
          );
          return out;
        }
      }
    }
  }
  out.count("probe.not_found_error", notfound);
  if events + notfound > 0 {
    out.nontrivial_key = Some(crate::rng::mix(
      world_hash(&world),
      crate::rng::hash_str(3, &serde_json::to_string(&sem).unwrap()),
    ));
  }
  out.sample = Some(json!({
    "member": label,
    "events": reports.iter().filter_map(|(_, e)| match e {
      ReportEvent::OnResolve(a, b) => Some(format!("{} -> {}", a, b)),
      _ => None,
    }).collect::<Vec<_>>(),
    "lockfile_seeds": world.lockfile.jsr_specifiers,
    "prefer_cached": sem.prefer_cached_jsr,
    "cutoff": sem.cutoff,
  }));
  out
}
