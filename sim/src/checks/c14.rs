//! C14 — redirect following terminates and all lookups agree with the walk.

use std::collections::BTreeSet;

use deno_graph::ModuleGraph;
use deno_graph::ModuleSpecifier;
use serde_json::json;

use crate::checks::common::*;
use crate::exec::RunEnd;
use crate::framework::CaseOutcome;
use crate::framework::CaseParams;
use crate::framework::CheckSpec;
use crate::framework::Tier;
use crate::framework::Violation;
use crate::run::SchedOpts;
use crate::run::SemOpts;
use crate::shape::Shape;
use crate::shape::SlotShape;
use crate::shape::shape_of;
use crate::tape::Stream;
use crate::tape::Tape;
use crate::world::*;

pub fn spec() -> CheckSpec {
  CheckSpec {
    id: "C14",
    level: "exploration",
    rule: "systematic family: redirect chains of length 0..13 ending in a module / missing / loader error / external, cycles of length 1..12 entered after a tail of 0..3, each under Loader::max_redirects in {0,1,3,10,20}, with lockfile-seeded redirects that agree, disagree or loop, and implicit (final-url) redirects; plus seeded generated worlds. On every finished graph, for each s in roots, dependency targets and redirect sources: resolve terminates and is idempotent; get / try_get / contains agree with what a reference walk (slots first, then redirect entries, own seen-set, no hop limit) reaches; specifiers() lists every redirect source with its walk result; resolve_dependency(text, referrer, prefer_types) for every (module, key) and both flags equals the declarative rule. distinct+non-trivial = distinct graphs having at least one redirect",
    assumptions: vec![
      "the reference for 'what the walk reaches' follows the graph's own redirect entries without a hop limit and stops on a repeated specifier",
    ],
    real_components: "deno_graph builder (redirect counting, check_specifier/add_redirect), ModuleGraph::resolve/get/try_get/contains/specifiers/resolve_dependency",
    stub_components: "all seams simulated (loader serves the redirect family)",
    quick_cases: 2000,
    thorough_cases: 120000,
    run_case,
    systematic: |t| match t {
      Tier::Quick => family_size(),
      Tier::Thorough => family_size(),
    },
  }
}

const MAXR: [u32; 5] = [10, 0, 1, 3, 20];
const ENDS: u64 = 4; // module, missing, error, external
const CHAIN_LENS: u64 = 14; // 0..=13
const CYCLE_LENS: u64 = 12; // 1..=12
const TAILS: u64 = 4; // 0..=3
const LOCK_MODES: u64 = 5; // none, agree, disagree, loop, stale per-hop entries

fn family_size() -> u64 {
  // chains: len x end x maxr x lock ; cycles: clen x tail x maxr(3) ; implicit: 6
  CHAIN_LENS * ENDS * MAXR.len() as u64 * LOCK_MODES
    + CYCLE_LENS * TAILS * 3
    + 6
}

/// Decode one member of the redirect family.
fn family_world(idx: u64) -> (World, SemOpts, String) {
  let mut w = World::default();
  let mut sem = SemOpts::default();
  let chains = CHAIN_LENS * ENDS * MAXR.len() as u64 * LOCK_MODES;
  let host = H_A;
  let r = |i: u64| format!("{}r{}.ts", host, i);
  if idx < chains {
    let mut i = idx;
    let len = i % CHAIN_LENS;
    i /= CHAIN_LENS;
    let end = i % ENDS;
    i /= ENDS;
    let maxr = MAXR[(i % MAXR.len() as u64) as usize];
    i /= MAXR.len() as u64;
    let lock = i % LOCK_MODES;
    for k in 0..len {
      w.remote.insert(r(k), Entry::Redirect(r(k + 1)));
    }
    match end {
      0 => {
        w.add_desc(ModuleDesc::new(r(len), Lang::Ts));
      }
      1 => {}
      2 => {
        w.remote.insert(r(len), Entry::Error("boom".into()));
      }
      _ => {
        w.remote.insert(r(len), Entry::External);
      }
    }
    let mut main = ModuleDesc::new(format!("{}main.ts", H_FILE), Lang::Ts);
    main.items.push(Item::new(Form::Named, r(0)));
    // a second importer entering the chain in the middle
    if len >= 2 {
      main.items.push(Item::new(Form::Dynamic, r(len / 2)));
    }
    w.add_desc(main);
    w.roots.push(format!("{}main.ts", H_FILE));
    if len % 3 == 1 {
      w.roots.push(r(0));
    }
    sem.max_redirects = maxr;
    match lock {
      1 => {
        w.lockfile.present = true;
        if len >= 1 {
          w.lockfile.redirects.insert(r(0), r(len)); // shortcut that agrees on the end
        }
      }
      2 => {
        w.lockfile.present = true;
        w.lockfile
          .redirects
          .insert(r(0), format!("{}elsewhere.ts", host));
      }
      3 => {
        w.lockfile.present = true;
        w.lockfile.redirects.insert(r(0), r(1));
        w.lockfile.redirects.insert(r(1), r(0));
      }
      4 => {
        // the lockfile of an earlier run: one redirect per hop; since then
        // the second hop stopped redirecting and serves a module itself,
        // and the old end of the chain is still imported directly
        w.lockfile.present = true;
        for k in 0..len {
          w.lockfile.redirects.insert(r(k), r(k + 1));
        }
        if len >= 2 {
          w.add_desc(ModuleDesc::new(r(1), Lang::Ts));
          let mut main = w.descs.get(&format!("{}main.ts", H_FILE)).unwrap().clone();
          main.items.push(Item::new(Form::SideEffect, r(len)));
          w.add_desc(main);
        }
      }
      _ => {}
    }
    (
      w,
      sem,
      format!("chain len={} end={} max_redirects={} lock={}", len, end, maxr, lock),
    )
  } else if idx < chains + CYCLE_LENS * TAILS * 3 {
    let mut i = idx - chains;
    let clen = 1 + i % CYCLE_LENS;
    i /= CYCLE_LENS;
    let tail = i % TAILS;
    i /= TAILS;
    let maxr = [10u32, 3, 20][(i % 3) as usize];
    for k in 0..tail {
      w.remote.insert(r(k), Entry::Redirect(r(k + 1)));
    }
    for k in 0..clen {
      let from = r(tail + k);
      let to = r(tail + (k + 1) % clen);
      w.remote.insert(from, Entry::Redirect(to));
    }
    let mut main = ModuleDesc::new(format!("{}main.ts", H_FILE), Lang::Ts);
    main.items.push(Item::new(Form::Named, r(0)));
    w.add_desc(main);
    w.roots.push(format!("{}main.ts", H_FILE));
    sem.max_redirects = maxr;
    (
      w,
      sem,
      format!("cycle len={} tail={} max_redirects={}", clen, tail, maxr),
    )
  } else {
    let i = idx - chains - CYCLE_LENS * TAILS * 3;
    // implicit redirects: a -> (final) b ; optionally b -> explicit c
    let a = format!("{}a.ts", host);
    let b = format!("{}b.ts", host);
    let c = format!("{}c.ts", host);
    let d = ModuleDesc::new(b.clone(), Lang::Ts);
    let bytes = d.render();
    w.add_desc(d);
    w.remote.insert(
      a.clone(),
      Entry::Module {
        bytes,
        headers: vec![],
        final_url: Some(b.clone()),
      },
    );
    if i % 3 == 1 {
      w.remote.insert(c.clone(), Entry::Redirect(a.clone()));
    }
    let mut main = ModuleDesc::new(format!("{}main.ts", H_FILE), Lang::Ts);
    main.items.push(Item::new(Form::Named, if i % 3 == 1 { c } else { a.clone() }));
    if i % 2 == 1 {
      main.items.push(Item::new(Form::SideEffect, b));
    }
    w.add_desc(main);
    w.roots.push(format!("{}main.ts", H_FILE));
    if i >= 3 {
      w.roots.push(a);
    }
    (w, sem, format!("implicit redirect variant {}", i))
  }
}

fn follow_detail<'a>(shape: &'a Shape, s: &str) -> (Option<&'a str>, usize) {
  // number of hops taken by the reference
  let mut cur = s.to_string();
  let mut seen = BTreeSet::new();
  let mut hops = 0;
  loop {
    if let Some((k, _)) = shape.slots.get_key_value(&cur) {
      return (Some(k.as_str()), hops);
    }
    if !seen.insert(cur.clone()) {
      return (None, hops);
    }
    match shape.redirects.get(&cur) {
      Some(n) => {
        cur = n.clone();
        hops += 1;
      }
      None => return (None, hops),
    }
  }
}

pub fn lookup_oracles(
  graph: &ModuleGraph,
  shape: &Shape,
  violations: &mut Vec<Violation>,
  counters: &mut Vec<(&'static str, u64)>,
) {
  let mut interesting: BTreeSet<String> = BTreeSet::new();
  interesting.extend(shape.roots.iter().cloned());
  interesting.extend(shape.redirects.keys().cloned());
  for (_, slot) in &shape.slots {
    if let SlotShape::Module(m) = slot {
      for d in &m.deps {
        interesting.extend(d.code.ok().map(|s| s.to_string()));
        interesting.extend(d.typ.ok().map(|s| s.to_string()));
      }
      if let Some((_, r)) = &m.types_dep {
        interesting.extend(r.ok().map(|s| s.to_string()));
      }
    }
  }
  for (_, deps) in &shape.imports {
    for d in deps {
      interesting.extend(d.typ.ok().map(|s| s.to_string()));
    }
  }
  let listed: Vec<(String, Result<String, String>)> = graph
    .specifiers()
    .map(|(s, r)| {
      (
        s.to_string(),
        match r {
          Ok(m) => Ok(m.specifier().to_string()),
          Err(e) => Err(e.to_string_with_range()),
        },
      )
    })
    .collect();
  let mut max_hops = 0;
  let mut push = |v: &mut Vec<Violation>,
                  oracle: &str,
                  sig: String,
                  msg: String,
                  s: &str,
                  hops: usize| {
    v.push(Violation {
      property: "C14".into(),
      oracle: oracle.into(),
      signature: sig,
      message: msg,
      detail: json!({"specifier": s, "hops_to_result": hops}),
      replay_as: None,
    });
  };
  for s in &interesting {
    let Ok(url) = ModuleSpecifier::parse(s) else {
      continue;
    };
    let (w, hops) = follow_detail(shape, s);
    max_hops = max_hops.max(hops);
    let hop_class = if hops >= 10 { "hops>=10" } else { "hops<10" };
    // resolve: idempotent
    let r1 = graph.resolve(&url).clone();
    let r2 = graph.resolve(&r1).clone();
    if r1 != r2 {
      push(
        violations,
        "resolve-idempotent",
        format!("resolve-not-idempotent:{}", hop_class),
        format!("resolve({}) = {} but resolve of that = {}", s, r1, r2),
        s,
        hops,
      );
      return;
    }
    let w_slot = w.and_then(|k| shape.slots.get(k));
    // get / contains
    let got = graph.get(&url).map(|m| m.specifier().to_string());
    let expect_mod = match (w, w_slot) {
      (Some(k), Some(SlotShape::Module(_))) => Some(k.to_string()),
      _ => None,
    };
    if got != expect_mod {
      push(
        violations,
        "get-agrees-with-walk",
        format!("get-disagrees:{}", hop_class),
        format!(
          "get({}) = {:?} but the walk reaches {:?}",
          s, got, expect_mod
        ),
        s,
        hops,
      );
      return;
    }
    if graph.contains(&url) != expect_mod.is_some() {
      push(
        violations,
        "contains-agrees-with-walk",
        format!("contains-disagrees:{}", hop_class),
        format!(
          "contains({}) = {} but the walk reaches {:?}",
          s,
          graph.contains(&url),
          expect_mod
        ),
        s,
        hops,
      );
      return;
    }
    // try_get
    let tg = match graph.try_get(&url) {
      Ok(Some(m)) => format!("module:{}", m.specifier()),
      Ok(None) => "none".to_string(),
      Err(e) => format!("error:{}", e.to_string_with_range()),
    };
    let expect_tg = match (w, w_slot) {
      (Some(k), Some(SlotShape::Module(_))) => format!("module:{}", k),
      (Some(_), Some(SlotShape::Err { with_range, .. })) => {
        format!("error:{}", with_range)
      }
      _ => "none".to_string(),
    };
    if tg != expect_tg {
      push(
        violations,
        "try_get-agrees-with-walk",
        format!(
          "try_get-disagrees:{}:{}-vs-{}",
          hop_class,
          tg.split(':').next().unwrap_or(""),
          expect_tg.split(':').next().unwrap_or("")
        ),
        format!(
          "try_get({}) = {} but the walk reaches {}",
          s,
          crate::checks::c04::truncate(&tg, 200),
          crate::checks::c04::truncate(&expect_tg, 200)
        ),
        s,
        hops,
      );
      return;
    }
    // the listing has one result per specifier, and for a specifier that has
    // an entry of its own that result is the entry (what get / try_get / the
    // walk give for it)
    // (two identical results for one specifier contradict nothing and are
    // not reported)
    let results: std::collections::BTreeSet<String> = listed
      .iter()
      .filter(|(k, _)| k == s)
      .map(|(_, r)| format!("{:?}", r))
      .collect();
    let n_listed = results.len();
    if n_listed > 1 {
      push(
        violations,
        "specifiers-lists-redirect-sources",
        "specifiers-listing:contradicting-results".to_string(),
        format!(
          "specifiers() lists {} with {} different results: {:?}",
          s,
          n_listed,
          listed.iter().filter(|(k, _)| k == s).map(|(_, r)| r.clone()).collect::<Vec<_>>()
        ),
        s,
        hops,
      );
      return;
    }
    // specifiers() lists redirect sources with their targets' results
    if shape.redirects.contains_key(s) && !shape.slots.contains_key(s) {
      let entry = listed.iter().find(|(k, _)| k == s);
      let expect_listed = match (w, w_slot) {
        (Some(k), Some(SlotShape::Module(_))) => Some(Ok(k.to_string())),
        (Some(_), Some(SlotShape::Err { with_range, .. })) => {
          Some(Err(with_range.clone()))
        }
        _ => None,
      };
      let actual_listed = entry.map(|e| e.1.clone());
      if actual_listed != expect_listed {
        push(
          violations,
          "specifiers-lists-redirect-sources",
          format!(
            "specifiers-listing:{}:{}",
            if hops >= 2 { "hops>=2" } else { "hops<2" },
            if actual_listed.is_none() {
              "absent"
            } else {
              "different"
            }
          ),
          format!(
            "specifiers() has {:?} for redirect source {} but the walk reaches {:?}",
            actual_listed, s, expect_listed
          ),
          s,
          hops,
        );
        return;
      }
    }
  }
  // resolve_dependency
  let mut rd = 0u64;
  for (murl, slot) in &shape.slots {
    let SlotShape::Module(m) = slot else {
      continue;
    };
    let Ok(referrer) = ModuleSpecifier::parse(murl) else {
      continue;
    };
    for d in &m.deps {
      for prefer_types in [false, true] {
        rd += 1;
        let actual = graph
          .resolve_dependency(&d.key, &referrer, prefer_types)
          .map(|u| u.to_string());
        let first = if prefer_types {
          d.typ.ok().or(d.code.ok())
        } else {
          d.code.ok().or(d.typ.ok())
        };
        let mut hops_max = 0;
        let expected = first.and_then(|f| {
          let (w, h) = follow_detail(shape, f);
          hops_max = h;
          let k = w?;
          match shape.slots.get(k) {
            Some(SlotShape::Module(tm)) => {
              if prefer_types && tm.kind == "js" {
                if let Some((_, r)) = &tm.types_dep {
                  if let Some(t) = r.ok() {
                    let (tw, h2) = follow_detail(shape, t);
                    hops_max = hops_max.max(h2);
                    if let Some(tk) = tw {
                      if matches!(
                        shape.slots.get(tk),
                        Some(SlotShape::Module(_))
                      ) {
                        return Some(tk.to_string());
                      }
                    }
                  }
                }
              }
              Some(k.to_string())
            }
            _ => None,
          }
        });
        if actual != expected {
          push(
            violations,
            "resolve_dependency",
            format!(
              "resolve_dependency-disagrees:{}:prefer_types={}",
              if hops_max >= 10 { "hops>=10" } else { "hops<10" },
              prefer_types
            ),
            format!(
              "resolve_dependency({:?}, {}, prefer_types={}) = {:?}, expected {:?}",
              d.key, murl, prefer_types, actual, expected
            ),
            murl,
            hops_max,
          );
          return;
        }
      }
    }
  }
  counters.push(("lookups", interesting.len() as u64));
  counters.push(("resolve_dependency_calls", rd));
  counters.push(("probe.redirect_chain_ge_10", (max_hops >= 10) as u64));
  counters.push(("probe.redirect_chain_ge_2", (max_hops >= 2) as u64));
}

pub fn run_case(tape: &mut Tape, _tier: Tier, p: &CaseParams) -> CaseOutcome {
  let mut out = CaseOutcome::default();
  let (world, mut sem, label) = match p.systematic_index {
    Some(i) => family_world(i),
    None => {
      let mut cfg = GenCfg::basic();
      cfg.allow_redirects = true;
      let mut w = crate::checks::worlds::gen_any_world(tape, &cfg);
      // extra redirect chains into existing entries
      let k = tape.small(Stream::World, 0, 12);
      if k > 0 {
        let targets: Vec<String> = w.remote.keys().cloned().collect();
        let to = targets[tape.draw(Stream::World, targets.len() as u32) as usize].clone();
        for i in 0..k {
          let from = format!("{}c{}.ts", H_B, i);
          let next = if i + 1 == k {
            to.clone()
          } else {
            format!("{}c{}.ts", H_B, i + 1)
          };
          w.remote.insert(from, Entry::Redirect(next));
        }
        w.roots.push(format!("{}c0.ts", H_B));
      }
      let s = SemOpts::draw(tape);
      (w, s, "generated".to_string())
    }
  };
  sem.with_locker = world.lockfile.present;
  let sched = SchedOpts::draw(tape);
  let hash_seed = draw_hash_seed(tape);
  let t0 = std::mem::replace(tape, Tape::replay(Default::default()));
  let res = build_fresh(
    &world,
    &FaultPlan::default(),
    &sem,
    &sched,
    t0,
    hash_seed,
    false,
    move |session, report, _| {
      let mut violations = vec![];
      let mut counters = vec![];
      if report.end == RunEnd::Done {
        let shape = shape_of(&session.graph);
        lookup_oracles(&session.graph, &shape, &mut violations, &mut counters);
      }
      (violations, counters)
    },
  );
  let (built, t1) = match res {
    Ok(x) => x,
    Err(e) => {
      out.harness_error = Some(format!("run thread panicked: {}", e));
      return out;
    }
  };
  *tape = t1;
  add_summary(&mut out, &built.summary, &sched);
  if built.end != RunEnd::Done {
    out.count("abnormal_end", 1);
    return out;
  }
  let (violations, counters) = built.extra;
  for (k, v) in counters {
    out.count(k, v);
  }
  let ctx = json!({"family_member": label, "sem": sem, "sched": sched, "hash_seed": hash_seed, "world": world.to_json()});
  for mut v in violations {
    if let serde_json::Value::Object(m) = &mut v.detail {
      m.insert("case".into(), ctx.clone());
    }
    out.violations.push(v);
  }
  if built.summary.n_redirects >= 1 {
    out.nontrivial_key = Some(value_hash(&built.obs));
  }
  out.sample = Some(json!({"member": label, "roots": world.roots, "redirects_in_graph": built.summary.n_redirects, "max_redirects": sem.max_redirects}));
  out
}
