//! Hash seeds are a scheduled choice. `std`'s `RandomState` takes its keys
//! from `getrandom(2)` once per thread; this binary defines the C symbol
//! itself and fills the buffer from a thread-local value. Every simulated run
//! executes on a fresh thread, so all `HashMap` iteration orders in that run
//! are a function of the tape.

use std::cell::Cell;

use crate::rng::splitmix64;

thread_local! {
  static HASH_SEED: Cell<u64> = const { Cell::new(0x5EED_0000_0000_0001) };
  static PASS_THROUGH: Cell<bool> = const { Cell::new(false) };
}

#[unsafe(no_mangle)]
pub unsafe extern "C" fn getrandom(
  buf: *mut u8,
  buflen: usize,
  flags: u32,
) -> isize {
  let pass = PASS_THROUGH.try_with(|p| p.get()).unwrap_or(false);
  if pass {
    // real system call (SYS_getrandom = 318 on x86_64, 278 on aarch64)
    #[cfg(target_arch = "x86_64")]
    const SYS_GETRANDOM: i64 = 318;
    #[cfg(target_arch = "aarch64")]
    const SYS_GETRANDOM: i64 = 278;
    unsafe extern "C" {
      fn syscall(num: i64, ...) -> i64;
    }
    return unsafe { syscall(SYS_GETRANDOM, buf, buflen, flags as i64) as isize };
  }
  let mut st = HASH_SEED
    .try_with(|s| {
      let v = s.get();
      // advance so consecutive calls on one thread differ
      s.set(v.wrapping_add(0x1234_5678_9ABC_DEF1));
      v
    })
    .unwrap_or(0x5EED);
  let mut i = 0;
  while i < buflen {
    let v = splitmix64(&mut st).to_le_bytes();
    let n = (buflen - i).min(8);
    unsafe {
      std::ptr::copy_nonoverlapping(v.as_ptr(), buf.add(i), n);
    }
    i += n;
  }
  buflen as isize
}

/// Run `f` on a fresh thread whose hash keys derive from `seed`.
pub fn with_hash_seed<T: Send + 'static>(
  seed: u64,
  pass_through_os: bool,
  f: impl FnOnce() -> T + Send + 'static,
) -> std::thread::Result<T> {
  std::thread::Builder::new()
    .stack_size(32 * 1024 * 1024)
    .spawn(move || {
      HASH_SEED.with(|s| s.set(crate::rng::mix(seed, 0xA5A5)));
      PASS_THROUGH.with(|p| p.set(pass_through_os));
      f()
    })
    .expect("spawn run thread")
    .join()
}

/// Force process-global one-time initialisations that consume `getrandom`
/// (e.g. ahash inside swc's atom store) with a fixed value.
pub fn init_process_globals() {
  HASH_SEED.with(|s| s.set(0x0BAD_5EED_0000_0001));
  // touch a HashMap on the main thread and parse a tiny module
  let mut m = std::collections::HashMap::new();
  m.insert(1u32, 2u32);
  let a = deno_graph::ast::ParserModuleAnalyzer::default();
  let _ = a.analyze_sync(
    &deno_graph::ModuleSpecifier::parse("file:///init.tsx").unwrap(),
    "import a from './a.ts'; export const b: number = 1; const c = <div/>;".into(),
    deno_media_type::MediaType::Tsx,
  );
}

/// Probe used by selftest: the iteration order of a small HashMap under the
/// current thread's keys.
pub fn probe_order() -> Vec<u32> {
  let mut m = std::collections::HashMap::new();
  for i in 0..16u32 {
    m.insert(i, ());
  }
  m.keys().copied().collect()
}
