//! Plain-data view of a `ModuleGraph` (extracted through its public API), used
//! by the reference walks and locality oracles. `Send`, so it can leave the run
//! thread.

use std::collections::BTreeMap;
use std::collections::BTreeSet;

use deno_graph::Module;
use deno_graph::ModuleGraph;
use deno_graph::Resolution;

#[derive(Clone, Debug, PartialEq, Eq)]
pub enum ResShape {
  None,
  Ok(String),
  Err(String),
}

impl ResShape {
  pub fn of(r: &Resolution) -> ResShape {
    match r {
      Resolution::None => ResShape::None,
      Resolution::Ok(x) => ResShape::Ok(x.specifier.to_string()),
      Resolution::Err(e) => ResShape::Err(e.to_string()),
    }
  }
  pub fn ok(&self) -> Option<&str> {
    match self {
      ResShape::Ok(s) => Some(s),
      _ => None,
    }
  }
}

#[derive(Clone, Debug)]
pub struct DepShape {
  pub key: String,
  pub is_dynamic: bool,
  pub code: ResShape,
  pub typ: ResShape,
  pub code_range_spec: Option<String>,
  pub type_range_spec: Option<String>,
}

#[derive(Clone, Debug)]
pub struct ModShape {
  pub kind: &'static str,
  pub media_type: String,
  pub deps: Vec<DepShape>,
  pub fc_deps: Option<Vec<DepShape>>,
  pub types_dep: Option<(String, ResShape)>,
  pub source_map_dep: Option<ResShape>,
}

#[derive(Clone, Debug)]
pub enum SlotShape {
  Module(ModShape),
  /// (text without range, text with range, error's own specifier, referrer
  /// module)
  Err {
    text: String,
    with_range: String,
    at: String,
    referrer: Option<String>,
    is_missing: bool,
  },
}

#[derive(Clone, Debug, Default)]
pub struct Shape {
  /// keyed by slot specifier (no redirect sources)
  pub slots: BTreeMap<String, SlotShape>,
  pub redirects: BTreeMap<String, String>,
  pub roots: Vec<String>,
  /// configured imports: referrer -> deps
  pub imports: Vec<(String, Vec<DepShape>)>,
  pub kind: u8,
}

fn deps_of(
  deps: &indexmap::IndexMap<String, deno_graph::Dependency>,
) -> Vec<DepShape> {
  deps
    .iter()
    .map(|(k, d)| DepShape {
      key: k.clone(),
      is_dynamic: d.is_dynamic,
      code: ResShape::of(&d.maybe_code),
      typ: ResShape::of(&d.maybe_type),
      code_range_spec: d
        .maybe_code
        .maybe_range()
        .map(|r| r.specifier.to_string()),
      type_range_spec: d
        .maybe_type
        .maybe_range()
        .map(|r| r.specifier.to_string()),
    })
    .collect()
}

pub fn shape_of(graph: &ModuleGraph) -> Shape {
  let mut s = Shape {
    kind: match graph.graph_kind() {
      deno_graph::GraphKind::All => 0,
      deno_graph::GraphKind::CodeOnly => 1,
      deno_graph::GraphKind::TypesOnly => 2,
    },
    ..Default::default()
  };
  s.roots = graph.roots.iter().map(|r| r.to_string()).collect();
  s.redirects = graph
    .redirects
    .iter()
    .map(|(a, b)| (a.to_string(), b.to_string()))
    .collect();
  for (referrer, gi) in &graph.imports {
    s.imports
      .push((referrer.to_string(), deps_of(&gi.dependencies)));
  }
  for m in graph.modules() {
    let (types_dep, source_map_dep, fc) = match m {
      Module::Js(js) => (
        js.maybe_types_dependency
          .as_ref()
          .map(|t| (t.specifier.clone(), ResShape::of(&t.dependency))),
        js.maybe_source_map_dependency
          .as_ref()
          .map(|t| ResShape::of(&t.dependency)),
        js.fast_check_module().map(|f| deps_of(&f.dependencies)),
      ),
      _ => (None, None, None),
    };
    s.slots.insert(
      m.specifier().to_string(),
      SlotShape::Module(ModShape {
        kind: crate::observe::module_kind(m),
        media_type: m.media_type().to_string(),
        deps: deps_of(m.dependencies()),
        fc_deps: fc,
        types_dep,
        source_map_dep,
      }),
    );
  }
  // error slots: module_errors() gives errors but not their slot key; a slot's
  // key is found through specifiers()
  let redirect_sources: BTreeSet<String> = s.redirects.keys().cloned().collect();
  for (spec, res) in graph.specifiers() {
    if let Err(e) = res {
      let key = spec.to_string();
      if redirect_sources.contains(&key) && s.slots.contains_key(&key) {
        continue;
      }
      // specifiers() lists slot keys first, then redirect sources; keep the
      // first (slot) occurrence
      s.slots.entry(key).or_insert_with(|| SlotShape::Err {
        text: e.to_string(),
        with_range: e.to_string_with_range(),
        at: e.specifier().to_string(),
        referrer: e.maybe_referrer().map(|r| r.specifier.to_string()),
        is_missing: matches!(
          e.as_kind(),
          deno_graph::ModuleErrorKind::Missing { .. }
        ),
      });
    }
  }
  // redirect sources that point at error slots were inserted above under the
  // redirect source key too; drop those that are pure redirect sources
  let keys: Vec<String> = s.slots.keys().cloned().collect();
  for k in keys {
    if s.redirects.contains_key(&k) {
      // a real slot and a redirect source cannot share a key unless the graph
      // really has both; keep only if try_get on the key itself is the slot
      let is_real_slot = deno_graph::ModuleSpecifier::parse(&k)
        .ok()
        .map(|u| {
          graph
            .specifiers()
            .take(graph.specifiers_count())
            .filter(|(s, _)| **s == u)
            .count()
            > 1
        })
        .unwrap_or(false);
      if !is_real_slot {
        if let Some(SlotShape::Err { .. }) = s.slots.get(&k) {
          s.slots.remove(&k);
        }
      }
    }
  }
  s
}

impl Shape {
  /// Follow redirect entries from `spec` with an own seen-set (reference
  /// walk, unbounded by any hop limit).
  pub fn follow(&self, spec: &str) -> Option<&str> {
    let mut cur = spec;
    let mut seen = BTreeSet::new();
    loop {
      if self.slots.contains_key(cur) {
        return Some(self.slots.get_key_value(cur).unwrap().0.as_str());
      }
      if !seen.insert(cur.to_string()) {
        return None;
      }
      match self.redirects.get(cur) {
        Some(n) => cur = n.as_str(),
        None => return None,
      }
    }
  }
}
