//! Plain-data view of a `ModuleGraph` (extracted through its public API), used
//! by the reference walks and locality oracles. `Send`, so it can leave the run
//! thread.

use std::collections::BTreeMap;
use std::collections::BTreeSet;

use deno_graph::Module;
use deno_graph::ModuleGraph;
use deno_graph::Resolution;

#[derive(Clone, Debug, PartialEq, Eq)]
pub enum ResShape {
  None,
  /// (specifier, range as displayed)
  Ok(String, String),
  /// (variant name, text with range)
  Err(String, String),
}

pub fn variant_name(dbg: &str) -> String {
  dbg
    .split(|c: char| !c.is_alphanumeric())
    .next()
    .unwrap_or("")
    .to_string()
}

impl ResShape {
  pub fn of(r: &Resolution) -> ResShape {
    match r {
      Resolution::None => ResShape::None,
      Resolution::Ok(x) => {
        ResShape::Ok(x.specifier.to_string(), x.range.to_string())
      }
      Resolution::Err(e) => ResShape::Err(
        variant_name(&format!("{:?}", e)),
        e.to_string_with_range(),
      ),
    }
  }
  pub fn ok(&self) -> Option<&str> {
    match self {
      ResShape::Ok(s, _) => Some(s),
      _ => None,
    }
  }
}

#[derive(Clone, Debug)]
pub struct DepShape {
  pub key: String,
  /// text of the `@deno-types` / `@ts-types` pragma the type target came from
  pub deno_types: Option<String>,
  pub is_dynamic: bool,
  pub code: ResShape,
  pub typ: ResShape,
  pub code_range_spec: Option<String>,
  pub type_range_spec: Option<String>,
}

#[derive(Clone, Debug)]
pub struct ModShape {
  pub kind: &'static str,
  pub mt: deno_media_type::MediaType,
  pub media_type: String,
  pub deps: Vec<DepShape>,
  pub fc_deps: Option<Vec<DepShape>>,
  pub types_dep: Option<(String, ResShape)>,
  pub source_map_dep: Option<ResShape>,
}

#[derive(Clone, Debug)]
pub enum SlotShape {
  Module(ModShape),
  /// (text without range, text with range, error's own specifier, referrer
  /// module)
  Err {
    text: String,
    with_range: String,
    at: String,
    referrer: Option<String>,
    is_missing: bool,
    variant: String,
    /// `maybe_referrer` as displayed
    referrer_range: Option<String>,
  },
}

#[derive(Clone, Debug, Default)]
pub struct Shape {
  /// keyed by slot specifier (no redirect sources)
  pub slots: BTreeMap<String, SlotShape>,
  pub redirects: BTreeMap<String, String>,
  pub roots: Vec<String>,
  /// configured imports: referrer -> deps
  pub imports: Vec<(String, Vec<DepShape>)>,
  pub kind: u8,
}

fn deps_of(
  deps: &indexmap::IndexMap<String, deno_graph::Dependency>,
) -> Vec<DepShape> {
  deps
    .iter()
    .map(|(k, d)| DepShape {
      key: k.clone(),
      deno_types: d.maybe_deno_types_specifier.clone(),
      is_dynamic: d.is_dynamic,
      code: ResShape::of(&d.maybe_code),
      typ: ResShape::of(&d.maybe_type),
      code_range_spec: d
        .maybe_code
        .maybe_range()
        .map(|r| r.specifier.to_string()),
      type_range_spec: d
        .maybe_type
        .maybe_range()
        .map(|r| r.specifier.to_string()),
    })
    .collect()
}

pub fn shape_of(graph: &ModuleGraph) -> Shape {
  let mut s = Shape {
    kind: match graph.graph_kind() {
      deno_graph::GraphKind::All => 0,
      deno_graph::GraphKind::CodeOnly => 1,
      deno_graph::GraphKind::TypesOnly => 2,
    },
    ..Default::default()
  };
  s.roots = graph.roots.iter().map(|r| r.to_string()).collect();
  s.redirects = graph
    .redirects
    .iter()
    .map(|(a, b)| (a.to_string(), b.to_string()))
    .collect();
  for (referrer, gi) in &graph.imports {
    s.imports
      .push((referrer.to_string(), deps_of(&gi.dependencies)));
  }
  for m in graph.modules() {
    let (types_dep, source_map_dep, fc) = match m {
      Module::Js(js) => (
        js.maybe_types_dependency
          .as_ref()
          .map(|t| (t.specifier.clone(), ResShape::of(&t.dependency))),
        js.maybe_source_map_dependency
          .as_ref()
          .map(|t| ResShape::of(&t.dependency)),
        js.fast_check_module().map(|f| deps_of(&f.dependencies)),
      ),
      _ => (None, None, None),
    };
    s.slots.insert(
      m.specifier().to_string(),
      SlotShape::Module(ModShape {
        kind: crate::observe::module_kind(m),
        mt: m.media_type(),
        media_type: m.media_type().to_string(),
        deps: deps_of(m.dependencies()),
        fc_deps: fc,
        types_dep,
        source_map_dep,
      }),
    );
  }
  // error slots: `specifiers()` lists real slots first (modules and errors in
  // key order), then redirect sources
  let n_slots = graph.modules().count() + graph.module_errors().count();
  for (spec, res) in graph.specifiers().take(n_slots) {
    if let Err(e) = res {
      s.slots.insert(
        spec.to_string(),
        SlotShape::Err {
          text: e.to_string(),
          with_range: e.to_string_with_range(),
          at: e.specifier().to_string(),
          referrer: e.maybe_referrer().map(|r| r.specifier.to_string()),
          is_missing: matches!(
            e.as_kind(),
            deno_graph::ModuleErrorKind::Missing { .. }
          ),
          variant: variant_name(&format!("{:?}", e.as_kind())),
          referrer_range: e.maybe_referrer().map(|r| r.to_string()),
        },
      );
    }
  }
  s
}

impl Shape {
  /// Follow redirect entries from `spec` with an own seen-set (reference
  /// walk, unbounded by any hop limit).
  pub fn follow(&self, spec: &str) -> Option<&str> {
    let mut cur = spec;
    let mut seen = BTreeSet::new();
    loop {
      if self.slots.contains_key(cur) {
        return Some(self.slots.get_key_value(cur).unwrap().0.as_str());
      }
      if !seen.insert(cur.to_string()) {
        return None;
      }
      match self.redirects.get(cur) {
        Some(n) => cur = n.as_str(),
        None => return None,
      }
    }
  }
}
