//! Canonical observation of a finished graph: everything two graphs are
//! compared on. Orders the API does not define (hash sets) are canonicalised;
//! orders it does define are kept.

use std::collections::BTreeMap;

use deno_graph::Module;
use deno_graph::ModuleGraph;
use serde_json::Value;
use serde_json::json;

use crate::seams::LockerState;

pub fn observe(graph: &ModuleGraph, locker: Option<&LockerState>) -> Value {
  let serialized = match serde_json::to_value(graph) {
    Ok(v) => v,
    Err(e) => json!({"SERIALIZE_ERROR": e.to_string()}),
  };
  let mut slots = serde_json::Map::new();
  for (spec, res) in graph.specifiers() {
    let v = match res {
      Ok(m) => json!({"module": module_kind(m), "at": m.specifier().as_str()}),
      Err(e) => json!({"error": e.to_string_with_range(), "at": e.specifier().as_str()}),
    };
    slots.insert(spec.to_string(), v);
  }
  let mut modules = serde_json::Map::new();
  for m in graph.modules() {
    modules.insert(m.specifier().to_string(), module_detail(m));
  }
  let mut pk = serde_json::Map::new();
  let mappings: BTreeMap<String, String> = graph
    .packages
    .mappings()
    .iter()
    // keys are compared by range (`@a/b@1` and `@a/b@^1` are one entry whose
    // text is whichever came first), so show the normalised requirement
    .map(|(k, v)| (k.to_string_normalized().to_string(), v.to_string()))
    .collect();
  pk.insert("mappings".into(), json!(mappings));
  let mut deps = serde_json::Map::new();
  let mut exports = serde_json::Map::new();
  for (nv, d) in graph.packages.packages_with_deps() {
    let mut ds: Vec<String> = d.map(|r| r.to_string()).collect();
    ds.sort();
    deps.insert(nv.to_string(), json!(ds));
    if let Some(e) = graph.packages.package_exports(nv) {
      exports.insert(nv.to_string(), json!(e));
    }
  }
  pk.insert("deps".into(), Value::Object(deps));
  pk.insert("exports".into(), Value::Object(exports));
  let mut g2 = graph.packages.clone();
  let yanked: Vec<String> =
    g2.used_yanked_packages().map(|n| n.to_string()).collect();
  pk.insert("used_yanked".into(), json!(yanked));
  let mut out = serde_json::Map::new();
  out.insert("serialized".into(), serialized);
  out.insert("slots".into(), Value::Object(slots));
  out.insert("modules".into(), Value::Object(modules));
  out.insert("packages".into(), Value::Object(pk));
  out.insert(
    "npm_dep_graph_result".into(),
    match &graph.npm_dep_graph_result {
      Ok(()) => json!("ok"),
      Err(e) => json!(e.to_string()),
    },
  );
  out.insert("has_node_specifier".into(), json!(graph.has_node_specifier));
  out.insert(
    "valid".into(),
    match graph.valid() {
      Ok(()) => json!("ok"),
      Err(e) => json!(e.to_string_with_range()),
    },
  );
  if let Some(l) = locker {
    out.insert(
      "lockfile".into(),
      json!({"remote": l.remote, "pkg": l.pkg}),
    );
  }
  Value::Object(out)
}

pub fn module_kind(m: &Module) -> &'static str {
  match m {
    Module::Js(_) => "js",
    Module::Json(_) => "json",
    Module::Wasm(_) => "wasm",
    Module::Npm(_) => "npm",
    Module::Node(_) => "node",
    Module::External(_) => "external",
  }
}

fn module_detail(m: &Module) -> Value {
  let mut o = serde_json::Map::new();
  o.insert("kind".into(), json!(module_kind(m)));
  o.insert("media_type".into(), json!(m.media_type().to_string()));
  match m {
    Module::Js(js) => {
      o.insert("source".into(), json!(js.source.text.as_ref()));
      o.insert(
        "decoded_kind".into(),
        json!(format!("{:?}", js.source.decoded_kind)),
      );
      o.insert("is_script".into(), json!(js.is_script));
      if let Some(t) = &js.maybe_types_dependency {
        o.insert(
          "types_dep".into(),
          json!({"specifier": t.specifier, "dependency": serde_json::to_value(&t.dependency).unwrap_or(Value::Null)}),
        );
      }
      if let Some(t) = &js.maybe_source_map_dependency {
        o.insert(
          "source_map_dep".into(),
          json!({"specifier": t.specifier, "dependency": serde_json::to_value(&t.dependency).unwrap_or(Value::Null)}),
        );
      }
    }
    Module::Json(j) => {
      o.insert("source".into(), json!(j.source.text.as_ref()));
    }
    Module::Wasm(w) => {
      o.insert("source_len".into(), json!(w.source.len()));
      o.insert("source_dts".into(), json!(w.source_dts.as_ref()));
    }
    Module::External(e) => {
      o.insert("was_asset_load".into(), json!(e.was_asset_load));
    }
    Module::Npm(n) => {
      o.insert("pkg_req_ref".into(), json!(n.pkg_req_ref.to_string()));
    }
    Module::Node(n) => {
      o.insert("module_name".into(), json!(n.module_name));
    }
  }
  let mut deps = vec![];
  for (k, d) in m.dependencies() {
    let imports: Vec<Value> = d
      .imports
      .iter()
      .map(|i| {
        json!({
          "specifier": i.specifier,
          "kind": format!("{:?}", i.kind),
          "range": i.specifier_range.to_string(),
          "mode": format!("{:?}", i.specifier_range.resolution_mode),
          "is_dynamic": i.is_dynamic,
          "attributes": format!("{:?}", i.attributes),
          "side_effect": i.is_side_effect,
        })
      })
      .collect();
    deps.push(json!({
      "key": k,
      "is_dynamic": d.is_dynamic,
      "code": serde_json::to_value(&d.maybe_code).unwrap_or(Value::Null),
      "type": serde_json::to_value(&d.maybe_type).unwrap_or(Value::Null),
      "deno_types": d.maybe_deno_types_specifier,
      "attr": d.maybe_attribute_type,
      "imports": imports,
    }));
  }
  o.insert("deps".into(), Value::Array(deps));
  Value::Object(o)
}

/// First path at which two JSON values differ, with both sides.
pub fn first_diff(a: &Value, b: &Value) -> Option<(String, Value, Value)> {
  fn go(
    path: &mut String,
    a: &Value,
    b: &Value,
  ) -> Option<(String, Value, Value)> {
    match (a, b) {
      (Value::Object(x), Value::Object(y)) => {
        for (k, va) in x {
          match y.get(k) {
            Some(vb) => {
              let l = path.len();
              path.push('/');
              path.push_str(&k.replace('/', "~1"));
              if let Some(d) = go(path, va, vb) {
                return Some(d);
              }
              path.truncate(l);
            }
            None => {
              return Some((
                format!("{}/{}", path, k.replace('/', "~1")),
                va.clone(),
                Value::String("<absent>".into()),
              ));
            }
          }
        }
        for (k, vb) in y {
          if !x.contains_key(k) {
            return Some((
              format!("{}/{}", path, k),
              Value::String("<absent>".into()),
              vb.clone(),
            ));
          }
        }
        // key order (preserve_order): compare order too
        let ka: Vec<&String> = x.keys().collect();
        let kb: Vec<&String> = y.keys().collect();
        if ka != kb {
          return Some((
            format!("{}#key-order", path),
            json!(ka),
            json!(kb),
          ));
        }
        None
      }
      (Value::Array(x), Value::Array(y)) => {
        for (i, (va, vb)) in x.iter().zip(y.iter()).enumerate() {
          let l = path.len();
          path.push_str(&format!("/{}", i));
          if let Some(d) = go(path, va, vb) {
            return Some(d);
          }
          path.truncate(l);
        }
        if x.len() != y.len() {
          return Some((
            format!("{}#len", path),
            json!(x.len()),
            json!(y.len()),
          ));
        }
        None
      }
      _ => {
        if a == b {
          None
        } else {
          Some((path.clone(), a.clone(), b.clone()))
        }
      }
    }
  }
  go(&mut String::new(), a, b)
}
