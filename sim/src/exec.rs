//! Single-threaded simulated executor + scheduler. The scheduler owns every
//! choice of "who runs next": which task is polled, which outstanding seam
//! operation completes, and whether a spurious wake-up happens.

use std::cell::RefCell;
use std::future::Future;
use std::pin::Pin;
use std::rc::Rc;
use std::sync::Arc;
use std::sync::atomic::AtomicBool;
use std::sync::atomic::AtomicU64;
use std::sync::atomic::Ordering;
use std::task::Context;
use std::task::Poll;
use std::task::Wake;
use std::task::Waker;

use crate::tape::Stream;
use crate::tape::Tape;

/// No simulated world comes anywhere near this many seam operations.
pub const OP_BOUND: usize = 20_000;
pub const LIVELOCK_MSG: &str =
  "dsim: operation bound exceeded (the build keeps issuing requests: livelock)";

pub type BoxedFuture = Pin<Box<dyn Future<Output = ()> + 'static>>;

#[derive(Clone, Copy, Debug, PartialEq, Eq)]
pub enum Policy {
  /// Operations complete at issue: the schedule the pinned test-suite runs.
  Immediate,
  /// Poll whenever something is woken, otherwise complete the oldest op.
  FifoLazy,
  /// Poll whenever something is woken, otherwise complete the newest op.
  Lifo,
  /// Uniform choice among all enabled actions.
  Uniform,
  /// Complete everything outstanding (in random order) before polling.
  Batch,
  /// Main task is polled only when nothing else is enabled.
  StarveMain,
  /// Spawned tasks are polled only when nothing else is enabled.
  StarveSpawned,
  /// Per-host latency + jitter on a discrete-event clock.
  Latency,
  /// Random priorities per op (lower completes first) with change points.
  Pct,
}

pub const POLICIES: [Policy; 9] = [
  Policy::Immediate,
  Policy::FifoLazy,
  Policy::Lifo,
  Policy::Uniform,
  Policy::Batch,
  Policy::StarveMain,
  Policy::StarveSpawned,
  Policy::Latency,
  Policy::Pct,
];

impl Policy {
  pub fn name(self) -> &'static str {
    match self {
      Policy::Immediate => "immediate",
      Policy::FifoLazy => "fifo-lazy",
      Policy::Lifo => "lifo",
      Policy::Uniform => "uniform",
      Policy::Batch => "batch",
      Policy::StarveMain => "starve-main",
      Policy::StarveSpawned => "starve-spawned",
      Policy::Latency => "latency",
      Policy::Pct => "pct",
    }
  }
}

#[derive(Clone, Debug, PartialEq, Eq)]
pub enum OpKind {
  Load,
  EnsureCached,
  Npm,
  Analyze,
}

impl OpKind {
  pub fn name(&self) -> &'static str {
    match self {
      OpKind::Load => "load",
      OpKind::EnsureCached => "ensure_cached",
      OpKind::Npm => "npm",
      OpKind::Analyze => "analyze",
    }
  }
}

struct Op {
  kind: OpKind,
  label: String,
  complete: bool,
  waker: Option<Waker>,
  due: u64,
  prio: u32,
}

struct TaskWaker {
  woken: AtomicBool,
}

impl Wake for TaskWaker {
  fn wake(self: Arc<Self>) {
    self.woken.store(true, Ordering::SeqCst);
  }
  fn wake_by_ref(self: &Arc<Self>) {
    self.woken.store(true, Ordering::SeqCst);
  }
}

struct Task {
  fut: Option<BoxedFuture>,
  waker: Arc<TaskWaker>,
  done: bool,
  join_waker: Option<Waker>,
}

#[derive(Clone, Debug)]
pub struct Event {
  pub seq: u64,
  pub kind: &'static str,
  pub detail: String,
}

#[derive(Default, Clone, Debug)]
pub struct SchedStats {
  pub steps: u64,
  pub polls_main: u64,
  pub polls_spawned: u64,
  pub completions: u64,
  pub spurious_wakes: u64,
  pub out_of_order_completions: u64,
  pub max_outstanding: u64,
  pub sim_time: u64,
  pub spawned_tasks: u64,
  pub spawned_polled_after_join_wait: u64,
}

struct Inner {
  policy: Policy,
  inline_exec: bool,
  spurious: bool,
  ops: Vec<Op>,
  tasks: Vec<Task>,
  history: Vec<Event>,
  stats: SchedStats,
  now: u64,
  /// highest op id completed so far + 1 (for out-of-order detection)
  max_completed: Option<usize>,
  /// order signature: hash over (event kind, label)
  sig: u64,
  record_history: bool,
}

/// Shared simulation state: ops, tasks, history.
pub struct Sim {
  inner: RefCell<Inner>,
  pub seq: Arc<AtomicU64>,
  tape: RefCell<Tape>,
}

pub struct OpFuture {
  sim: Rc<Sim>,
  id: usize,
}

impl Future for OpFuture {
  type Output = ();
  fn poll(self: Pin<&mut Self>, cx: &mut Context<'_>) -> Poll<()> {
    let mut inner = self.sim.inner.borrow_mut();
    let op = &mut inner.ops[self.id];
    if op.complete {
      Poll::Ready(())
    } else {
      op.waker = Some(cx.waker().clone());
      Poll::Pending
    }
  }
}

struct JoinFuture {
  sim: Rc<Sim>,
  id: usize,
}

impl Future for JoinFuture {
  type Output = ();
  fn poll(self: Pin<&mut Self>, cx: &mut Context<'_>) -> Poll<()> {
    let mut inner = self.sim.inner.borrow_mut();
    let t = &mut inner.tasks[self.id];
    if t.done {
      Poll::Ready(())
    } else {
      t.join_waker = Some(cx.waker().clone());
      Poll::Pending
    }
  }
}

#[derive(Debug, Clone, PartialEq, Eq)]
pub enum RunEnd {
  Done,
  Panic(String),
  Deadlock,
  StepBound(u64),
}

#[derive(Clone, Copy, Debug)]
enum Action {
  PollMain,
  PollTask(usize),
  Complete(usize),
  Spurious(usize), // 0 = main, n = task n-1
}

impl Sim {
  pub fn new(
    policy: Policy,
    inline_exec: bool,
    spurious: bool,
    tape: Tape,
    record_history: bool,
  ) -> Rc<Self> {
    Rc::new(Sim {
      inner: RefCell::new(Inner {
        policy,
        inline_exec,
        spurious,
        ops: Vec::new(),
        tasks: Vec::new(),
        history: Vec::new(),
        stats: Default::default(),
        now: 0,
        max_completed: None,
        sig: 0xABCD_EF01_2345_6789,
        record_history,
      }),
      seq: Arc::new(AtomicU64::new(0)),
      tape: RefCell::new(tape),
    })
  }

  pub fn take_tape(&self) -> Tape {
    std::mem::replace(
      &mut *self.tape.borrow_mut(),
      Tape::replay(Default::default()),
    )
  }

  pub fn next_seq(&self) -> u64 {
    self.seq.fetch_add(1, Ordering::SeqCst)
  }

  pub fn record(&self, kind: &'static str, detail: String) {
    let seq = self.next_seq();
    let mut inner = self.inner.borrow_mut();
    inner.sig = crate::rng::mix(
      inner.sig,
      crate::rng::hash_str(crate::rng::hash_str(0, kind), &detail),
    );
    if inner.record_history {
      inner.history.push(Event { seq, kind, detail });
    }
  }

  pub fn history(&self) -> Vec<Event> {
    self.inner.borrow().history.clone()
  }

  pub fn stats(&self) -> SchedStats {
    self.inner.borrow().stats.clone()
  }

  pub fn order_signature(&self) -> u64 {
    self.inner.borrow().sig
  }

  pub fn ops_issued(&self) -> usize {
    self.inner.borrow().ops.len()
  }

  /// Issue a seam operation. Returns a future that is pending until the
  /// scheduler completes the op.
  pub fn new_op(self: &Rc<Self>, kind: OpKind, label: String) -> OpFuture {
    let (policy, now) = {
      let i = self.inner.borrow();
      (i.policy, i.now)
    };
    let (due, prio) = match policy {
      Policy::Latency => {
        let mut tape = self.tape.borrow_mut();
        // per-host base latency derived from the label (deterministic),
        // jitter from the schedule stream
        let host_lat = if label.starts_with("file:") {
          1
        } else if label.contains("jsr.io") || label.contains("registry") {
          20
        } else if label.contains("slow") || label.contains("h1.") {
          60
        } else {
          8
        };
        let jitter = tape.draw(Stream::Schedule, 16) as u64;
        (now + host_lat + jitter, 0)
      }
      Policy::Pct => {
        let mut tape = self.tape.borrow_mut();
        (0, tape.draw(Stream::Schedule, 8))
      }
      _ => (0, 0),
    };
    let mut inner = self.inner.borrow_mut();
    let id = inner.ops.len();
    if id >= OP_BOUND {
      drop(inner);
      // a build that keeps issuing requests without end inside one poll
      // cannot be interrupted by the scheduler; unwind out of it
      panic!("{}", LIVELOCK_MSG);
    }
    inner.ops.push(Op {
      kind,
      label,
      complete: policy == Policy::Immediate,
      waker: None,
      due,
      prio,
    });
    let outstanding = inner.ops.iter().filter(|o| !o.complete).count() as u64;
    if outstanding > inner.stats.max_outstanding {
      inner.stats.max_outstanding = outstanding;
    }
    drop(inner);
    OpFuture {
      sim: self.clone(),
      id,
    }
  }

  /// `Executor::execute` contract.
  pub fn spawn(self: &Rc<Self>, fut: BoxedFuture) -> BoxedFuture {
    let mut inner = self.inner.borrow_mut();
    if inner.inline_exec {
      return fut;
    }
    let id = inner.tasks.len();
    inner.tasks.push(Task {
      fut: Some(fut),
      waker: Arc::new(TaskWaker {
        woken: AtomicBool::new(true),
      }),
      done: false,
      join_waker: None,
    });
    inner.stats.spawned_tasks += 1;
    drop(inner);
    self.record("spawn", format!("task{}", id + 1));
    Box::pin(JoinFuture {
      sim: self.clone(),
      id,
    })
  }

  fn enabled_actions(&self, main_woken: bool) -> Vec<Action> {
    let inner = self.inner.borrow();
    let mut v = Vec::new();
    if main_woken {
      v.push(Action::PollMain);
    }
    for (i, t) in inner.tasks.iter().enumerate() {
      if !t.done && t.waker.woken.load(Ordering::SeqCst) {
        v.push(Action::PollTask(i));
      }
    }
    for (i, o) in inner.ops.iter().enumerate() {
      if !o.complete {
        v.push(Action::Complete(i));
      }
    }
    v
  }

  fn choose(&self, actions: &[Action]) -> Action {
    let policy = self.inner.borrow().policy;
    let mut tape = self.tape.borrow_mut();
    let polls_main: Vec<Action> = actions
      .iter()
      .copied()
      .filter(|a| matches!(a, Action::PollMain))
      .collect();
    let polls_task: Vec<Action> = actions
      .iter()
      .copied()
      .filter(|a| matches!(a, Action::PollTask(_)))
      .collect();
    let completes: Vec<Action> = actions
      .iter()
      .copied()
      .filter(|a| matches!(a, Action::Complete(_)))
      .collect();
    let first_poll = || {
      polls_main
        .first()
        .copied()
        .or_else(|| polls_task.first().copied())
    };
    match policy {
      Policy::Immediate => actions[0],
      Policy::FifoLazy => first_poll().unwrap_or_else(|| completes[0]),
      Policy::Lifo => {
        first_poll().unwrap_or_else(|| *completes.last().unwrap())
      }
      Policy::Uniform => {
        actions[tape.draw(Stream::Schedule, actions.len() as u32) as usize]
      }
      Policy::Batch => {
        if !completes.is_empty() {
          completes[tape.draw(Stream::Schedule, completes.len() as u32) as usize]
        } else {
          let polls: Vec<Action> =
            polls_main.iter().chain(polls_task.iter()).copied().collect();
          polls[tape.draw(Stream::Schedule, polls.len() as u32) as usize]
        }
      }
      Policy::StarveMain => {
        let others: Vec<Action> =
          polls_task.iter().chain(completes.iter()).copied().collect();
        if !others.is_empty() {
          others[tape.draw(Stream::Schedule, others.len() as u32) as usize]
        } else {
          polls_main[0]
        }
      }
      Policy::StarveSpawned => {
        let others: Vec<Action> =
          polls_main.iter().chain(completes.iter()).copied().collect();
        if !others.is_empty() {
          others[tape.draw(Stream::Schedule, others.len() as u32) as usize]
        } else {
          polls_task[0]
        }
      }
      Policy::Latency => {
        // anything woken is polled first (a busy CPU); otherwise the clock
        // jumps to the next due completion
        if let Some(p) = first_poll() {
          if tape.draw(Stream::Schedule, 4) != 3 || completes.is_empty() {
            return p;
          }
        }
        let inner = self.inner.borrow();
        let mut best = completes[0];
        let mut best_due = u64::MAX;
        for a in &completes {
          if let Action::Complete(i) = a {
            let d = inner.ops[*i].due;
            if d < best_due {
              best_due = d;
              best = *a;
            }
          }
        }
        best
      }
      Policy::Pct => {
        if let Some(p) = first_poll() {
          if tape.draw(Stream::Schedule, 3) != 2 || completes.is_empty() {
            return p;
          }
        }
        // change point: occasionally re-draw a priority
        let mut inner = self.inner.borrow_mut();
        if tape.draw(Stream::Schedule, 8) == 7 {
          let k = tape.draw(Stream::Schedule, completes.len() as u32) as usize;
          if let Action::Complete(i) = completes[k] {
            inner.ops[i].prio = tape.draw(Stream::Schedule, 8);
          }
        }
        let mut best = completes[0];
        let mut best_p = u32::MAX;
        for a in &completes {
          if let Action::Complete(i) = a {
            let p = inner.ops[*i].prio;
            if p < best_p {
              best_p = p;
              best = *a;
            }
          }
        }
        best
      }
    }
  }

  fn complete_op(&self, id: usize) {
    let (waker, kind, label) = {
      let mut inner = self.inner.borrow_mut();
      let older_pending = inner.ops[..id].iter().any(|o| !o.complete);
      if older_pending {
        inner.stats.out_of_order_completions += 1;
      }
      let due = inner.ops[id].due;
      if due > inner.now {
        inner.now = due;
        inner.stats.sim_time = due;
      }
      inner.stats.completions += 1;
      inner.max_completed = Some(id);
      let op = &mut inner.ops[id];
      op.complete = true;
      (op.waker.take(), op.kind.name(), op.label.clone())
    };
    self.record("complete", format!("{} {}", kind, label));
    if let Some(w) = waker {
      w.wake();
    }
  }

  fn poll_task(self: &Rc<Self>, id: usize) {
    let (mut fut, waker) = {
      let mut inner = self.inner.borrow_mut();
      let t = &mut inner.tasks[id];
      t.waker.woken.store(false, Ordering::SeqCst);
      let had_join_waiter = t.join_waker.is_some();
      let w = t.waker.clone();
      let f = t.fut.take().unwrap();
      inner.stats.polls_spawned += 1;
      if had_join_waiter {
        inner.stats.spawned_polled_after_join_wait += 1;
      }
      (f, w)
    };
    let waker = Waker::from(waker);
    let mut cx = Context::from_waker(&waker);
    let res = fut.as_mut().poll(&mut cx);
    let join_waker = {
      let mut inner = self.inner.borrow_mut();
      let t = &mut inner.tasks[id];
      match res {
        Poll::Ready(()) => {
          t.done = true;
          t.join_waker.take()
        }
        Poll::Pending => {
          t.fut = Some(fut);
          None
        }
      }
    };
    if let Some(w) = join_waker {
      w.wake();
    }
  }

  /// Drive `main` to completion under the scheduler.
  pub fn run<'a>(
    self: &Rc<Self>,
    mut main: Pin<Box<dyn Future<Output = ()> + 'a>>,
  ) -> RunEnd {
    let main_waker = Arc::new(TaskWaker {
      woken: AtomicBool::new(true),
    });
    let waker = Waker::from(main_waker.clone());
    let mut spurious_budget = 8u32;
    loop {
      let main_woken = main_waker.woken.load(Ordering::SeqCst);
      let mut actions = self.enabled_actions(main_woken);
      {
        let inner = self.inner.borrow();
        let bound = 64 * (inner.ops.len() as u64 + inner.tasks.len() as u64 + 16);
        if inner.stats.steps > bound {
          return RunEnd::StepBound(inner.stats.steps);
        }
      }
      let spurious_enabled = self.inner.borrow().spurious;
      if spurious_enabled && spurious_budget > 0 {
        let n_tasks = self.inner.borrow().tasks.len();
        let fire = self.tape.borrow_mut().draw(Stream::Schedule, 12) == 11;
        if fire {
          let k =
            self.tape.borrow_mut().draw(Stream::Schedule, n_tasks as u32 + 1)
              as usize;
          actions = vec![Action::Spurious(k)];
          spurious_budget -= 1;
        }
      }
      if actions.is_empty() {
        return RunEnd::Deadlock;
      }
      let action = if let [Action::Spurious(_)] = actions[..] {
        actions[0]
      } else {
        self.choose(&actions)
      };
      self.inner.borrow_mut().stats.steps += 1;
      match action {
        Action::PollMain => {
          main_waker.woken.store(false, Ordering::SeqCst);
          self.inner.borrow_mut().stats.polls_main += 1;
          let mut cx = Context::from_waker(&waker);
          let res = std::panic::catch_unwind(std::panic::AssertUnwindSafe(
            || main.as_mut().poll(&mut cx),
          ));
          match res {
            Ok(Poll::Ready(())) => return RunEnd::Done,
            Ok(Poll::Pending) => {}
            Err(p) => {
              let msg = panic_message(&p);
              // the future must not be polled or dropped normally after a
              // panic mid-poll; leak it
              std::mem::forget(main);
              if msg == LIVELOCK_MSG {
                return RunEnd::StepBound(OP_BOUND as u64);
              }
              return RunEnd::Panic(msg);
            }
          }
        }
        Action::PollTask(i) => {
          let res = std::panic::catch_unwind(std::panic::AssertUnwindSafe(
            || self.poll_task(i),
          ));
          if let Err(p) = res {
            std::mem::forget(main);
            let msg = panic_message(&p);
            if msg == LIVELOCK_MSG {
              return RunEnd::StepBound(OP_BOUND as u64);
            }
            return RunEnd::Panic(msg);
          }
        }
        Action::Complete(i) => self.complete_op(i),
        Action::Spurious(k) => {
          self.inner.borrow_mut().stats.spurious_wakes += 1;
          if k == 0 {
            main_waker.woken.store(true, Ordering::SeqCst);
          } else {
            let inner = self.inner.borrow();
            if let Some(t) = inner.tasks.get(k - 1) {
              if !t.done {
                t.waker.woken.store(true, Ordering::SeqCst);
              }
            }
          }
          self.record("spurious-wake", format!("task{}", k));
        }
      }
    }
  }
}

pub fn panic_message(p: &Box<dyn std::any::Any + Send>) -> String {
  if let Some(s) = p.downcast_ref::<&str>() {
    s.to_string()
  } else if let Some(s) = p.downcast_ref::<String>() {
    s.clone()
  } else {
    "<non-string panic>".to_string()
  }
}

/// `deno_graph::Executor` backed by the simulator.
pub struct SimExecutor {
  pub sim: Rc<Sim>,
}

impl deno_graph::Executor for SimExecutor {
  fn execute(&self, fut: BoxedFuture) -> BoxedFuture {
    self.sim.spawn(fut)
  }
}
