//! Reference model of what a module's source declares: from the structured
//! description (never from source text) to the expected dependency map under
//! the resolver in use and the graph kind.

use std::collections::BTreeMap;

use deno_graph::ModuleSpecifier;
use deno_graph::source::recommended_registry_package_url_to_nv;

use crate::world::*;

#[derive(Clone, Debug, PartialEq, Eq)]
pub enum Res {
  None,
  Ok(String),
  Err,
}

impl Res {
  pub fn ok(&self) -> Option<&str> {
    match self {
      Res::Ok(s) => Some(s),
      _ => None,
    }
  }
  pub fn is_none(&self) -> bool {
    matches!(self, Res::None)
  }
}

#[derive(Clone, Debug, PartialEq, Eq)]
pub struct ExpDep {
  pub code: Res,
  pub typ: Res,
  pub is_dynamic: bool,
  pub attr: Option<String>,
  pub deno_types: Option<String>,
  /// every import of this key is an asset import (attribute text/bytes/css)
  /// or source phase
  pub all_asset: bool,
  /// the key is also imported statically by a form that is not a code import
  /// (`import type`, `export type`, an import type expression): the statement
  /// says static wins, the implementation lets code imports alone decide
  pub static_type_import: bool,
}

impl Default for ExpDep {
  fn default() -> Self {
    ExpDep {
      code: Res::None,
      typ: Res::None,
      is_dynamic: false,
      attr: None,
      deno_types: None,
      all_asset: true,
      static_type_import: false,
    }
  }
}

#[derive(Clone, Debug, Default)]
pub struct ExpModule {
  /// insertion-ordered keys
  pub deps: Vec<(String, ExpDep)>,
  pub types_dep: Option<(String, Res)>,
  pub source_map_dep: Option<Res>,
}

impl ExpModule {
  fn dep(&mut self, key: &str) -> &mut ExpDep {
    if let Some(i) = self.deps.iter().position(|(k, _)| k == key) {
      return &mut self.deps[i].1;
    }
    self.deps.push((key.to_string(), ExpDep::default()));
    &mut self.deps.last_mut().unwrap().1
  }
}

fn pkg_of(url: &str) -> Option<String> {
  let reg = ModuleSpecifier::parse(REGISTRY).ok()?;
  let u = ModuleSpecifier::parse(url).ok()?;
  recommended_registry_package_url_to_nv(&reg, &u).map(|nv| nv.to_string())
}

/// `resolve()` of graph.rs restated over the world's resolver configuration.
pub fn resolve(world: &World, referrer: &str, text: &str, types: bool) -> Res {
  let via_resolver = world.resolver.as_ref().and_then(|r| {
    if types {
      r.types_map.get(text).or_else(|| r.map.get(text))
    } else {
      r.map.get(text)
    }
  });
  let resolved: Result<String, ()> = match via_resolver {
    Some(t) if t == "!" => Err(()),
    Some(t) if ModuleSpecifier::parse(t).is_ok() => {
      Ok(ModuleSpecifier::parse(t).unwrap().to_string())
    }
    _ => match ModuleSpecifier::parse(referrer) {
      Ok(r) => deno_graph::resolve_import(text, &r)
        .map(|u| u.to_string())
        .map_err(|_| ()),
      Err(_) => Err(()),
    },
  };
  match resolved {
    Err(()) => Res::Err,
    Ok(u) => {
      if types {
        if let Some(p) = pkg_of(&u) {
          if Some(p) != pkg_of(referrer) {
            // importing a registry package over https for types
            return Res::Err;
          }
        }
      }
      Res::Ok(u)
    }
  }
}

/// 0 All, 1 CodeOnly, 2 TypesOnly
fn include_types(kind: u8) -> bool {
  kind != 1
}
fn include_code(kind: u8) -> bool {
  kind != 2
}

fn has_asset(attr: &Option<String>) -> bool {
  matches!(attr.as_deref(), Some("text") | Some("bytes") | Some("css"))
}

/// Expected module as `parse_module` would record it (before the builder's
/// per-kind adjustments).
pub fn parsed_module(world: &World, d: &ModuleDesc, kind: u8) -> ExpModule {
  let mut m = ExpModule::default();
  let url = d.url.as_str();
  let typed = d.lang.is_typed();
  let is_wasm = d.lang == Lang::Wasm;
  if let Some(sm) = &d.source_map {
    m.source_map_dep = Some(resolve(world, url, sm, false));
  }
  if include_types(kind) && !is_wasm {
    if let Some(st) = &d.self_types {
      if !typed {
        m.types_dep = Some((st.clone(), resolve(world, url, st, true)));
      }
    }
    for it in &d.items {
      match it.form {
        Form::TripleSlashPath => {
          let r = resolve(world, url, &it.spec, true);
          let dep = m.dep(&it.spec);
          if dep.typ.is_none() {
            dep.typ = r;
          }
          dep.all_asset = false;
        }
        Form::TripleSlashTypes => {
          if !typed && m.types_dep.is_some() {
            continue;
          }
          let r = resolve(world, url, &it.spec, true);
          if !typed {
            m.types_dep = Some((it.spec.clone(), r));
          } else {
            let dep = m.dep(&it.spec);
            if dep.typ.is_none() {
              dep.typ = r;
            }
            dep.all_asset = false;
          }
        }
        _ => {}
      }
    }
  }
  if d.lang.is_jsx() {
    let has_pragma = d.jsx_import_source.is_some();
    let src = d.jsx_import_source.clone().or_else(|| {
      world
        .resolver
        .as_ref()
        .and_then(|r| r.default_jsx_import_source.clone())
    });
    if let Some(src) = src {
      let text = format!("{}/jsx-runtime", src);
      let code = resolve(world, url, &text, false);
      let types_text = d.jsx_import_source_types.clone().or_else(|| {
        if has_pragma {
          None
        } else {
          world
            .resolver
            .as_ref()
            .and_then(|r| r.default_jsx_import_source_types.clone())
        }
      });
      let typ_explicit = types_text.as_ref().map(|t| {
        let tt = format!("{}/jsx-runtime", t);
        (resolve(world, url, &tt, true), tt)
      });
      let typ_generic = resolve(world, url, &text, true);
      let dep = m.dep(&text);
      if dep.code.is_none() {
        dep.code = code;
      }
      if include_types(kind) && dep.typ.is_none() {
        match typ_explicit {
          Some((r, tt)) => {
            dep.typ = r;
            dep.deno_types = Some(tt);
          }
          None => {
            if typ_generic.ok() != dep.code.ok() {
              dep.typ = typ_generic;
            }
          }
        }
      }
      dep.all_asset = false;
    }
  }
  if include_types(kind) && !typed && !is_wasm {
    for it in &d.items {
      if matches!(it.form, Form::JsDocImport | Form::JsDocType) {
        let r = resolve(world, url, &it.spec, true);
        let dep = m.dep(&it.spec);
        if dep.typ.is_none() {
          dep.typ = r;
        }
        dep.all_asset = false;
      }
    }
  }
  if include_types(kind) && m.types_dep.is_none() && !is_wasm {
    if let Some(t) = &d.x_typescript_types {
      m.types_dep = Some((t.clone(), resolve(world, url, t, true)));
    }
  }
  if include_types(kind) && m.types_dep.is_none() && !typed && !is_wasm {
    if let Some(r) = &world.resolver {
      if let Some(t) = r.resolve_types.get(url) {
        m.types_dep = Some((
          url.to_string(),
          if t == "!" {
            Res::Err
          } else {
            match ModuleSpecifier::parse(t) {
              Ok(u) => Res::Ok(u.to_string()),
              Err(_) => Res::None,
            }
          },
        ));
        if matches!(m.types_dep, Some((_, Res::None))) {
          m.types_dep = None;
        }
      }
    }
  }
  let decl = d.lang.is_declaration();
  for it in &d.items {
    if it.form.is_comment_form() {
      continue;
    }
    let ts_type = it.form.is_ts_type();
    if ts_type && !include_types(kind) {
      continue;
    }
    let side_effect = it.form == Form::SideEffect;
    let is_dynamic = it.form.is_dynamic();
    let code_r = resolve(world, url, &it.spec, false);
    let type_r = resolve(world, url, &it.spec, true);
    let pragma_r = it
      .types_pragma
      .as_ref()
      .map(|(_, t)| (t.clone(), resolve(world, url, t, true)));
    // wasm: every import is a plain static import
    let attr = if is_wasm { None } else { it.attr.clone() };
    let dep = m.dep(&it.spec);
    if dep.attr.is_none() {
      dep.attr = attr.clone();
    }
    if let Some((t, r)) = pragma_r {
      if include_types(kind) && dep.typ.is_none() && !is_wasm {
        dep.deno_types = Some(t);
        dep.typ = r;
      }
    }
    if ts_type {
      dep.static_type_import = true;
      if dep.typ.is_none() {
        dep.typ = type_r.clone();
      }
    } else if !decl {
      if dep.code.is_none() {
        dep.code = code_r;
        dep.is_dynamic = is_dynamic;
      } else {
        dep.is_dynamic = dep.is_dynamic && is_dynamic;
      }
    }
    if include_types(kind) && dep.typ.is_none() {
      let is_side_effect_err = side_effect && type_r == Res::Err;
      if !is_side_effect_err && type_r.ok() != dep.code.ok() {
        dep.typ = type_r;
      } else if !is_side_effect_err
        && type_r == Res::Err
        && dep.code == Res::Err
      {
        // both failed: specifiers are both None, hence "equal": not recorded
      }
    }
    let this_asset = has_asset(&attr) || it.form.is_source_phase();
    dep.all_asset = dep.all_asset && this_asset;
  }
  m
}

/// The builder's per-kind adjustments on top of `parsed_module`.
pub fn built_module(
  world: &World,
  d: &ModuleDesc,
  kind: u8,
  skip_dynamic_deps: bool,
) -> ExpModule {
  let mut m = parsed_module(world, d, kind);
  let is_js = d.lang.is_script();
  if is_js && kind == 2 && m.types_dep.is_some() {
    m.deps.clear();
  } else {
    for (_, dep) in m.deps.iter_mut() {
      if dep.is_dynamic && skip_dynamic_deps {
        continue;
      }
      if !(include_code(kind) || dep.typ.is_none()) {
        dep.code = Res::None;
      }
      if !include_types(kind) {
        dep.typ = Res::None;
      }
    }
  }
  if !include_types(kind) {
    m.types_dep = None;
  }
  m
}

pub fn deps_map(m: &ExpModule) -> BTreeMap<String, ExpDep> {
  m.deps.iter().cloned().collect()
}
