//! One simulated operation (build / reload) on a `ModuleGraph`.

use std::borrow::Cow;
use std::cell::RefCell;
use std::collections::BTreeMap;
use std::rc::Rc;
use std::sync::Arc;
use std::sync::Mutex;

use deno_graph::BuildOptions;
use deno_graph::FillFromLockfileOptions;
use deno_graph::GraphKind;
use deno_graph::ModuleGraph;
use deno_graph::ModuleSpecifier;
use deno_graph::ReferrerImports;
use deno_graph::packages::JsrVersionResolver;
use deno_graph::packages::NewestDependencyDate;
use deno_graph::packages::NewestDependencyDateOptions;
use deno_semver::jsr::JsrDepPackageReq;
use serde::Deserialize;
use serde::Serialize;

use crate::exec::Event;
use crate::exec::POLICIES;
use crate::exec::Policy;
use crate::exec::RunEnd;
use crate::exec::SchedStats;
use crate::exec::Sim;
use crate::exec::SimExecutor;
use crate::seams::LoadRecord;
use crate::seams::LoaderLog;
use crate::seams::LockerCall;
use crate::seams::LockerState;
use crate::seams::ReportEvent;
use crate::seams::SimAnalyzer;
use crate::seams::SimFs;
use crate::seams::SimLoader;
use crate::seams::SimLocker;
use crate::seams::SimNpm;
use crate::seams::SimReporter;
use crate::seams::SimResolver;
use crate::tape::Stream;
use crate::tape::Tape;
use crate::world::FaultPlan;
use crate::world::World;

#[derive(Clone, Debug, PartialEq, Eq, Serialize, Deserialize)]
pub struct SemOpts {
  /// 0 = All, 1 = CodeOnly, 2 = TypesOnly
  pub kind: u8,
  pub is_dynamic: bool,
  pub skip_dynamic_deps: bool,
  pub unstable_bytes: bool,
  pub unstable_text: bool,
  pub unstable_css: bool,
  pub unstable_config: bool,
  pub passthrough_jsr: bool,
  pub prefer_cached_jsr: bool,
  pub max_redirects: u32,
  pub with_locker: bool,
  pub cutoff: Option<i64>,
  pub exclude_pkgs: Vec<String>,
  pub exclude_prefixes: Vec<String>,
  /// roots built (fault-free, baseline schedule) before the operation under
  /// test, so that it runs on a non-empty graph
  #[serde(default)]
  pub prelude_roots: Vec<String>,
}

impl Default for SemOpts {
  fn default() -> Self {
    SemOpts {
      kind: 0,
      is_dynamic: false,
      skip_dynamic_deps: false,
      unstable_bytes: false,
      unstable_text: false,
      unstable_css: false,
      unstable_config: false,
      passthrough_jsr: false,
      prefer_cached_jsr: false,
      max_redirects: 10,
      with_locker: false,
      cutoff: None,
      exclude_pkgs: vec![],
      exclude_prefixes: vec![],
      prelude_roots: vec![],
    }
  }
}

pub fn graph_kind(k: u8) -> GraphKind {
  match k {
    0 => GraphKind::All,
    1 => GraphKind::CodeOnly,
    _ => GraphKind::TypesOnly,
  }
}

impl SemOpts {
  pub fn draw(tape: &mut Tape) -> SemOpts {
    let kind = tape.draw(Stream::Options, 3) as u8;
    let flags = |tape: &mut Tape, n: u32| tape.draw(Stream::Options, n) == n - 1;
    SemOpts {
      kind,
      is_dynamic: flags(tape, 8),
      skip_dynamic_deps: flags(tape, 6),
      unstable_bytes: flags(tape, 3),
      unstable_text: flags(tape, 3),
      unstable_css: flags(tape, 4),
      unstable_config: flags(tape, 8),
      passthrough_jsr: flags(tape, 8),
      prefer_cached_jsr: false,
      max_redirects: *tape.pick(Stream::Options, &[10, 10, 10, 3, 1, 0, 20]),
      with_locker: false,
      cutoff: None,
      exclude_pkgs: vec![],
      exclude_prefixes: vec![],
      prelude_roots: vec![],
    }
  }
}

#[derive(Clone, Debug, PartialEq, Eq, Serialize, Deserialize)]
pub struct SchedOpts {
  pub policy: u8,
  pub inline_exec: bool,
  pub spurious: bool,
  pub analyzer_suspend: bool,
  pub fs_order_seed: u32,
}

impl Default for SchedOpts {
  fn default() -> Self {
    SchedOpts {
      policy: 0,
      inline_exec: false,
      spurious: false,
      analyzer_suspend: false,
      fs_order_seed: 0,
    }
  }
}

impl SchedOpts {
  /// The first draws of the `schedule` stream. All-zero = the schedule the
  /// pinned suite runs.
  pub fn draw(tape: &mut Tape) -> SchedOpts {
    SchedOpts {
      policy: tape.draw(Stream::Schedule, POLICIES.len() as u32) as u8,
      inline_exec: tape.draw(Stream::Schedule, 4) == 3,
      spurious: tape.draw(Stream::Schedule, 4) == 3,
      analyzer_suspend: tape.draw(Stream::Schedule, 3) == 2,
      fs_order_seed: tape.draw(Stream::Schedule, 1 << 16),
    }
  }
  pub fn policy(&self) -> Policy {
    POLICIES[self.policy as usize % POLICIES.len()]
  }
}

pub enum Operation {
  Build {
    roots: Vec<String>,
    imports: Vec<(String, Vec<String>)>,
  },
  Reload {
    specifiers: Vec<String>,
  },
}

pub struct Session {
  pub graph: ModuleGraph,
  pub locker: LockerState,
  /// state of the (stateful) npm resolver across operations
  pub npm_known_reqs: Rc<RefCell<std::collections::BTreeSet<String>>>,
}

impl Session {
  pub fn new(world: &World, sem: &SemOpts) -> Session {
    let mut graph = ModuleGraph::new(graph_kind(sem.kind));
    let mut locker = LockerState::default();
    if world.lockfile.present {
      locker.remote = world.lockfile.remote.clone();
      locker.pkg = world.lockfile.pkg_manifests.clone();
      let reqs: Vec<(JsrDepPackageReq, String)> = world
        .lockfile
        .jsr_specifiers
        .iter()
        .filter_map(|(k, v)| {
          JsrDepPackageReq::from_str(k).ok().map(|r| (r, v.clone()))
        })
        .collect();
      graph.fill_from_lockfile(FillFromLockfileOptions {
        redirects: world
          .lockfile
          .redirects
          .iter()
          .map(|(a, b)| (a.as_str(), b.as_str())),
        package_specifiers: reqs.iter().map(|(r, v)| (r, v.as_str())),
      });
    }
    Session {
      graph,
      locker,
      npm_known_reqs: Default::default(),
    }
  }
}

pub struct Report {
  pub end: RunEnd,
  pub history: Vec<Event>,
  pub loads: Vec<LoadRecord>,
  pub locker_calls: Vec<(u64, LockerCall)>,
  pub reports: Vec<(u64, ReportEvent)>,
  pub npm_calls: Vec<Vec<String>>,
  pub npm_outcomes: Vec<(Vec<String>, Vec<bool>, bool)>,
  pub stats: SchedStats,
  pub faults_fired: BTreeMap<&'static str, u64>,
  pub order_sig: u64,
  pub fs_reads: u64,
  pub ops_issued: usize,
}

fn parse_urls(v: &[String]) -> Vec<ModuleSpecifier> {
  v.iter()
    .filter_map(|s| ModuleSpecifier::parse(s).ok())
    .collect()
}

/// Run one operation under the simulator. `tape` supplies the `schedule`
/// draws and is handed back (with what was drawn recorded).
pub fn run_op(
  session: &mut Session,
  world: &Rc<World>,
  plan: &Rc<FaultPlan>,
  sem: &SemOpts,
  sched: &SchedOpts,
  op: Operation,
  tape: Tape,
  record_history: bool,
) -> (Report, Tape) {
  run_op_with(
    session,
    world,
    plan,
    sem,
    sched,
    op,
    tape,
    record_history,
    None,
  )
}

/// Like `run_op`, with a caller-supplied module analyzer (e.g. a capturing
/// one, for fast check) behind the simulated suspension wrapper.
#[allow(clippy::too_many_arguments)]
pub fn run_op_with(
  session: &mut Session,
  world: &Rc<World>,
  plan: &Rc<FaultPlan>,
  sem: &SemOpts,
  sched: &SchedOpts,
  op: Operation,
  tape: Tape,
  record_history: bool,
  analyzer_override: Option<&dyn deno_graph::analysis::ModuleAnalyzer>,
) -> (Report, Tape) {
  let sim = Sim::new(
    sched.policy(),
    sched.inline_exec,
    sched.spurious,
    tape,
    record_history,
  );
  let log = Rc::new(RefCell::new(LoaderLog::default()));
  let loader = SimLoader {
    sim: sim.clone(),
    world: world.clone(),
    plan: plan.clone(),
    log: log.clone(),
    max_redirects: sem.max_redirects as usize,
    verify_checksums: true,
  };
  let executor = SimExecutor { sim: sim.clone() };
  let locker_calls = Rc::new(RefCell::new(Vec::new()));
  let mut locker = SimLocker {
    state: std::mem::take(&mut session.locker),
    calls: locker_calls.clone(),
    seq: sim.seq.clone(),
  };
  let npm_calls = Rc::new(RefCell::new(Vec::new()));
  let npm_outcomes = Rc::new(RefCell::new(Vec::new()));
  let npm = SimNpm {
    sim: sim.clone(),
    cfg: world.npm.clone(),
    calls: npm_calls.clone(),
    outcomes: npm_outcomes.clone(),
    known_reqs: session.npm_known_reqs.clone(),
  };
  let reporter = SimReporter {
    seq: sim.seq.clone(),
    events: Mutex::new(Vec::new()),
  };
  let real_analyzer = deno_graph::ast::DefaultModuleAnalyzer;
  let analyzer = SimAnalyzer {
    sim: sim.clone(),
    inner: analyzer_override.unwrap_or(&real_analyzer),
    suspend: sched.analyzer_suspend,
  };
  let resolver = world.resolver.clone().map(|cfg| SimResolver { cfg });
  let fs = SimFs {
    dirs: world.dirs.clone(),
    order_seed: sched.fs_order_seed as u64,
    error_mode: 0,
    reads: RefCell::new(0),
  };
  let version_resolver = JsrVersionResolver {
    newest_dependency_date_options: NewestDependencyDateOptions {
      date: sem.cutoff.map(|ts| {
        NewestDependencyDate(
          chrono::DateTime::<chrono::Utc>::from_timestamp(ts, 0).unwrap(),
        )
      }),
      exclude_jsr_pkgs: sem
        .exclude_pkgs
        .iter()
        .map(|s| s.as_str().into())
        .collect(),
      exclude_jsr_pkg_prefixes: sem
        .exclude_prefixes
        .iter()
        .map(|s| s.as_str().into())
        .collect(),
    },
  };
  let end;
  {
    let options = BuildOptions {
      is_dynamic: sem.is_dynamic,
      skip_dynamic_deps: sem.skip_dynamic_deps,
      unstable_bytes_imports: sem.unstable_bytes,
      unstable_text_imports: sem.unstable_text,
      unstable_css_imports: sem.unstable_css,
      unstable_config_imports: sem.unstable_config,
      executor: &executor,
      locker: if sem.with_locker {
        Some(&mut locker)
      } else {
        None
      },
      file_system: &fs,
      jsr_url_provider: Default::default(),
      jsr_version_resolver: Cow::Borrowed(&version_resolver),
      passthrough_jsr_specifiers: sem.passthrough_jsr,
      prefer_cached_jsr_versions: sem.prefer_cached_jsr,
      module_analyzer: &analyzer,
      module_info_cacher: Default::default(),
      npm_resolver: if world.npm.enabled { Some(&npm) } else { None },
      reporter: Some(&reporter),
      resolver: resolver
        .as_ref()
        .map(|r| r as &dyn deno_graph::source::Resolver),
      jsr_metadata_store: None,
    };
    let graph = &mut session.graph;
    let fut: std::pin::Pin<Box<dyn Future<Output = ()> + '_>> = match op {
      Operation::Build { roots, imports } => {
        let roots = parse_urls(&roots);
        let imports = imports
          .into_iter()
          .filter_map(|(r, i)| {
            ModuleSpecifier::parse(&r).ok().map(|referrer| {
              ReferrerImports {
                referrer,
                imports: i,
              }
            })
          })
          .collect();
        Box::pin(graph.build(roots, imports, &loader, options))
      }
      Operation::Reload { specifiers } => {
        Box::pin(graph.reload(parse_urls(&specifiers), &loader, options))
      }
    };
    end = sim.run(fut);
  }
  session.locker = std::mem::take(&mut locker.state);
  let log = std::mem::take(&mut *log.borrow_mut());
  let report = Report {
    end,
    history: sim.history(),
    loads: log.records,
    locker_calls: std::mem::take(&mut *locker_calls.borrow_mut()),
    reports: std::mem::take(&mut *reporter.events.lock().unwrap()),
    npm_calls: std::mem::take(&mut *npm_calls.borrow_mut()),
    npm_outcomes: std::mem::take(&mut *npm_outcomes.borrow_mut()),
    stats: sim.stats(),
    faults_fired: log.faults_fired,
    order_sig: sim.order_signature(),
    fs_reads: *fs.reads.borrow(),
    ops_issued: sim.ops_issued(),
  };
  let tape = sim.take_tape();
  (report, tape)
}

#[allow(dead_code)]
fn _unused(_: Arc<()>) {}
