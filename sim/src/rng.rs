//! PRNG written here so that seeds mean the same thing forever.

#[inline]
pub fn splitmix64(state: &mut u64) -> u64 {
  *state = state.wrapping_add(0x9E37_79B9_7F4A_7C15);
  let mut z = *state;
  z = (z ^ (z >> 30)).wrapping_mul(0xBF58_476D_1CE4_E5B9);
  z = (z ^ (z >> 27)).wrapping_mul(0x94D0_49BB_1331_11EB);
  z ^ (z >> 31)
}

/// Mixes two integers into one seed.
pub fn mix(a: u64, b: u64) -> u64 {
  let mut s = a ^ 0xD6E8_FEB8_6659_FD93;
  let x = splitmix64(&mut s);
  let mut t = x ^ b.wrapping_mul(0x9E37_79B9_7F4A_7C15);
  splitmix64(&mut t)
}

pub fn hash_str(seed: u64, s: &str) -> u64 {
  // FNV-1a then mixed; stable across platforms and runs
  let mut h: u64 = 0xcbf2_9ce4_8422_2325 ^ seed;
  for b in s.as_bytes() {
    h ^= *b as u64;
    h = h.wrapping_mul(0x0000_0100_0000_01B3);
  }
  let mut t = h;
  splitmix64(&mut t)
}

#[derive(Clone, Debug)]
pub struct Xoshiro {
  s: [u64; 4],
}

impl Xoshiro {
  pub fn new(seed: u64) -> Self {
    let mut st = seed;
    let s = [
      splitmix64(&mut st),
      splitmix64(&mut st),
      splitmix64(&mut st),
      splitmix64(&mut st),
    ];
    Self { s }
  }

  #[inline]
  pub fn next_u64(&mut self) -> u64 {
    let result = self.s[1].wrapping_mul(5).rotate_left(7).wrapping_mul(9);
    let t = self.s[1] << 17;
    self.s[2] ^= self.s[0];
    self.s[3] ^= self.s[1];
    self.s[1] ^= self.s[2];
    self.s[0] ^= self.s[3];
    self.s[2] ^= t;
    self.s[3] = self.s[3].rotate_left(45);
    result
  }

  /// Uniform in 0..n (n > 0).
  #[inline]
  pub fn below(&mut self, n: u32) -> u32 {
    debug_assert!(n > 0);
    ((self.next_u64() >> 32).wrapping_mul(n as u64) >> 32) as u32
  }
}
