//! Check framework: cases, violations, parallel runner, shrinking, replay
//! files, known findings, evidence.

use std::collections::BTreeMap;
use std::collections::BTreeSet;
use std::collections::HashSet;
use std::sync::Mutex;
use std::sync::atomic::AtomicBool;
use std::sync::atomic::AtomicU64;
use std::sync::atomic::Ordering;
use std::time::Instant;

use serde::Deserialize;
use serde::Serialize;
use serde_json::Value;
use serde_json::json;

use crate::rng::hash_str;
use crate::rng::mix;
use crate::tape::STREAMS;
use crate::tape::Stream;
use crate::tape::Tape;
use crate::tape::Tapes;

#[derive(Clone, Copy, Debug, PartialEq, Eq)]
pub enum Tier {
  Quick,
  Thorough,
}

impl Tier {
  pub fn name(self) -> &'static str {
    match self {
      Tier::Quick => "quick",
      Tier::Thorough => "thorough",
    }
  }
}

#[derive(Clone, Debug, Serialize, Deserialize)]
pub struct Violation {
  pub property: String,
  pub oracle: String,
  /// classification signature: stable under shrinking, distinguishes
  /// different violations of the same property
  pub signature: String,
  pub message: String,
  pub detail: Value,
  /// when the violating execution is better expressed as another case (e.g.
  /// one member of a sweep): the parameters and tapes that reproduce it
  #[serde(skip)]
  pub replay_as: Option<(CaseParams, Tapes)>,
}

#[derive(Default)]
pub struct CaseOutcome {
  pub violations: Vec<Violation>,
  /// additive counters (fault kinds fired, probes, builds ...)
  pub counters: BTreeMap<String, u64>,
  /// hash identifying this case for `distinct_nontrivial` (None = trivial)
  pub nontrivial_key: Option<u64>,
  /// further distinct-sets: name -> hashes
  pub distinct: BTreeMap<&'static str, Vec<u64>>,
  pub sample: Option<Value>,
  /// harness could not do its job
  pub harness_error: Option<String>,
}

impl CaseOutcome {
  pub fn count(&mut self, key: &str, n: u64) {
    if n > 0 {
      *self.counters.entry(key.to_string()).or_insert(0) += n;
    }
  }
  pub fn violation(
    &mut self,
    property: &str,
    oracle: &str,
    signature: impl Into<String>,
    message: impl Into<String>,
    detail: Value,
  ) {
    self.violations.push(Violation {
      property: property.to_string(),
      oracle: oracle.to_string(),
      signature: signature.into(),
      message: message.into(),
      detail,
      replay_as: None,
    });
  }
  pub fn merge_counters(&mut self, other: &BTreeMap<String, u64>) {
    for (k, v) in other {
      *self.counters.entry(k.clone()).or_insert(0) += v;
    }
  }
}

pub struct CheckSpec {
  pub id: &'static str,
  pub level: &'static str,
  pub rule: &'static str,
  pub assumptions: Vec<&'static str>,
  pub real_components: &'static str,
  pub stub_components: &'static str,
  /// number of cases per tier
  pub quick_cases: u64,
  pub thorough_cases: u64,
  /// run one case. `sub` selects a systematic family member when the check
  /// has one (None for seeded cases).
  pub run_case: fn(&mut Tape, Tier, &CaseParams) -> CaseOutcome,
  /// systematic cases (enumerated families) run in addition to the seeded
  /// ones: number per tier
  pub systematic: fn(Tier) -> u64,
}

#[derive(Clone, Debug, Default, Serialize, Deserialize)]
pub struct CaseParams {
  /// index into the systematic family, if any
  pub systematic_index: Option<u64>,
}

#[derive(Clone, Debug, Serialize, Deserialize)]
pub struct ReplayFile {
  pub property: String,
  pub oracle: String,
  pub signature: String,
  pub message: String,
  pub verif_seed: u64,
  pub run_index: u64,
  pub tier: String,
  pub params: CaseParams,
  pub tapes: Tapes,
  pub detail: Value,
  pub minimised: bool,
  pub shrink_executions: u64,
  pub original_tape_len: usize,
}

#[derive(Clone, Debug, Serialize, Deserialize)]
pub struct KnownFinding {
  pub property: String,
  /// substring match on the violation signature
  pub signature: String,
  pub what: String,
  #[serde(default)]
  pub status: String,
}

pub fn load_known_findings() -> Vec<KnownFinding> {
  let p = verif_root().join("known_findings.json");
  match std::fs::read_to_string(&p) {
    Ok(s) => {
      let v: Value = serde_json::from_str(&s).unwrap_or(json!({}));
      v.get("findings")
        .and_then(|f| serde_json::from_value(f.clone()).ok())
        .unwrap_or_default()
    }
    Err(_) => vec![],
  }
}

pub fn verif_root() -> std::path::PathBuf {
  std::env::var("VERIF_ROOT")
    .map(std::path::PathBuf::from)
    .unwrap_or_else(|_| std::path::PathBuf::from("/verif"))
}

fn tier_from(s: &str) -> Tier {
  if s == "thorough" {
    Tier::Thorough
  } else {
    Tier::Quick
  }
}

pub fn run_seed_for(id: &str, verif_seed: u64, idx: u64) -> u64 {
  mix(mix(verif_seed, hash_str(7, id)), idx)
}

/// Execute one case from a replay source.
pub fn exec_case(
  spec: &CheckSpec,
  tier: Tier,
  params: &CaseParams,
  tapes: &Tapes,
) -> (CaseOutcome, Tapes) {
  let mut tape = Tape::replay(tapes.clone());
  let out = (spec.run_case)(&mut tape, tier, params);
  (out, tape.rec)
}

fn matches_sig(out: &CaseOutcome, property: &str, sig: &str) -> bool {
  out
    .violations
    .iter()
    .any(|v| v.property == property && v.signature == sig)
}

/// Shrink tapes while the same violation class persists.
pub fn shrink(
  spec: &CheckSpec,
  tier: Tier,
  params: &CaseParams,
  start: &Tapes,
  property: &str,
  sig: &str,
  budget: u64,
) -> (Tapes, u64) {
  let mut best = start.clone();
  let mut execs = 0u64;
  let mut try_candidate = |cand: &Tapes, best: &mut Tapes, execs: &mut u64| -> bool {
    if *execs >= budget || cand == best {
      return false;
    }
    *execs += 1;
    let (out, rec) = exec_case(spec, tier, params, cand);
    if out.harness_error.is_none() && matches_sig(&out, property, sig) {
      // the recorded tape is the normalised form; keep whichever is smaller
      *best = if rec.total_len() <= cand.total_len() {
        rec
      } else {
        cand.clone()
      };
      true
    } else {
      false
    }
  };
  let order = [
    Stream::World,
    Stream::Faults,
    Stream::Options,
    Stream::Schedule,
    Stream::Hash,
  ];
  let mut improved = true;
  let mut rounds = 0;
  while improved && execs < budget && rounds < 6 {
    improved = false;
    rounds += 1;
    for s in order {
      // 1. zero the whole stream / truncate
      {
        let mut c = best.clone();
        c.get_mut(s).clear();
        if try_candidate(&c, &mut best, &mut execs) {
          improved = true;
          continue;
        }
      }
      // 2. truncate tail by halves
      let mut cut = best.get(s).len() / 2;
      while cut >= 1 && execs < budget {
        let len = best.get(s).len();
        if len == 0 {
          break;
        }
        let mut c = best.clone();
        let newlen = len.saturating_sub(cut);
        c.get_mut(s).truncate(newlen);
        if try_candidate(&c, &mut best, &mut execs) {
          improved = true;
        } else {
          cut /= 2;
        }
      }
      // 3. delete chunks
      let mut size = (best.get(s).len() / 2).max(1);
      while size >= 1 && execs < budget {
        let mut i = 0;
        while i + size <= best.get(s).len() && execs < budget {
          let mut c = best.clone();
          c.get_mut(s).drain(i..i + size);
          if try_candidate(&c, &mut best, &mut execs) {
            improved = true;
          } else {
            i += size;
          }
        }
        if size == 1 {
          break;
        }
        size /= 2;
      }
      // 4. zero chunks
      let mut size = (best.get(s).len() / 2).max(1);
      while size >= 1 && execs < budget {
        let mut i = 0;
        while i + size <= best.get(s).len() && execs < budget {
          if best.get(s)[i..i + size].iter().all(|v| *v == 0) {
            i += size;
            continue;
          }
          let mut c = best.clone();
          for v in &mut c.get_mut(s)[i..i + size] {
            *v = 0;
          }
          if try_candidate(&c, &mut best, &mut execs) {
            improved = true;
          }
          i += size;
        }
        if size == 1 {
          break;
        }
        size /= 2;
      }
      // 5. lower single values
      let mut i = 0;
      while i < best.get(s).len() && execs < budget {
        let v = best.get(s)[i];
        if v > 0 {
          for nv in [v / 2, v - 1] {
            if nv >= v {
              continue;
            }
            let mut c = best.clone();
            c.get_mut(s)[i] = nv;
            if try_candidate(&c, &mut best, &mut execs) {
              improved = true;
              break;
            }
          }
        }
        i += 1;
      }
    }
  }
  (best, execs)
}

#[derive(Default)]
struct Agg {
  evaluations: u64,
  counters: BTreeMap<String, u64>,
  nontrivial: HashSet<u64>,
  distinct: BTreeMap<&'static str, HashSet<u64>>,
  samples: Vec<Value>,
  violations: Vec<(u64, CaseParams, Tapes, Violation)>,
  harness_errors: Vec<String>,
  known: BTreeMap<String, u64>,
}

pub struct RunSummary {
  pub exit_code: i32,
}

/// Run a check: seeded search + systematic family, shrink, replay in a fresh
/// process, evidence.
pub fn run_check(spec: &CheckSpec, tier: Tier, verif_seed: u64) -> RunSummary {
  let started = Instant::now();
  let n_sys = (spec.systematic)(tier);
  let n_seeded = match tier {
    Tier::Quick => spec.quick_cases,
    Tier::Thorough => spec.thorough_cases,
  };
  let scale: f64 = std::env::var("VERIF_SCALE")
    .ok()
    .and_then(|s| s.parse().ok())
    .unwrap_or(1.0);
  let n_seeded = ((n_seeded as f64) * scale).ceil() as u64;
  let total = n_sys + n_seeded;
  let next = AtomicU64::new(0);
  let stop = AtomicBool::new(false);
  // lowest run index with an unlisted violation: every lower index is still
  // processed, so the reported violation does not depend on thread timing
  let min_violation = AtomicU64::new(u64::MAX);
  let agg = Mutex::new(Agg::default());
  let known = load_known_findings();
  let workers: usize = std::env::var("VERIF_WORKERS")
    .ok()
    .and_then(|s| s.parse().ok())
    .unwrap_or(16);
  let max_wall: u64 = std::env::var("VERIF_MAX_WALL_S")
    .ok()
    .and_then(|s| s.parse().ok())
    .unwrap_or(match tier {
      Tier::Quick => 240,
      Tier::Thorough => 3600,
    });
  println!(
    "dsim check {} tier={} VERIF_SEED={} cases={} (systematic {} + seeded {}) workers={}",
    spec.id,
    tier.name(),
    verif_seed,
    total,
    n_sys,
    n_seeded,
    workers
  );
  std::thread::scope(|scope| {
    for _ in 0..workers {
      scope.spawn(|| {
        let mut local = Agg::default();
        loop {
          if stop.load(Ordering::Relaxed) {
            break;
          }
          let idx = next.fetch_add(1, Ordering::Relaxed);
          if idx >= total || idx > min_violation.load(Ordering::SeqCst) {
            break;
          }
          if idx % 64 == 0 && started.elapsed().as_secs() > max_wall {
            stop.store(true, Ordering::Relaxed);
            break;
          }
          let params = CaseParams {
            systematic_index: if idx < n_sys { Some(idx) } else { None },
          };
          let mut tape =
            Tape::generate(run_seed_for(spec.id, verif_seed, idx));
          let out = (spec.run_case)(&mut tape, tier, &params);
          local.evaluations += 1;
          for (k, v) in &out.counters {
            *local.counters.entry(k.clone()).or_insert(0) += v;
          }
          if let Some(k) = out.nontrivial_key {
            local.nontrivial.insert(k);
          }
          for (name, hs) in &out.distinct {
            local.distinct.entry(name).or_default().extend(hs.iter());
          }
          if let Some(s) = out.sample {
            if local.samples.len() < 2 {
              local.samples.push(s);
            }
          }
          if let Some(e) = out.harness_error {
            local.harness_errors.push(format!("case {}: {}", idx, e));
          }
          for v in out.violations {
            if let Some(k) = known.iter().find(|k| {
              k.property == v.property
                && v.signature.contains(&k.signature)
                && !k.status.starts_with("fixed")
            }) {
              *local
                .known
                .entry(format!("property={} {}", k.property, k.what))
                .or_insert(0) += 1;
              continue;
            }
            if local.violations.len() < 4 {
              match v.replay_as.clone() {
                Some((p, t)) => local.violations.push((idx, p, t, v)),
                None => local.violations.push((
                  idx,
                  params.clone(),
                  tape.rec.clone(),
                  v,
                )),
              }
            }
          }
          if local.violations.iter().any(|v| v.0 == idx) {
            // stop early: one reproduced violation decides the run
            min_violation.fetch_min(idx, Ordering::SeqCst);
          }
        }
        let mut a = agg.lock().unwrap();
        a.evaluations += local.evaluations;
        for (k, v) in local.counters {
          *a.counters.entry(k).or_insert(0) += v;
        }
        a.nontrivial.extend(local.nontrivial);
        for (name, hs) in local.distinct {
          a.distinct.entry(name).or_default().extend(hs);
        }
        for s in local.samples {
          if a.samples.len() < 3 {
            a.samples.push(s);
          }
        }
        a.violations.extend(local.violations);
        a.harness_errors.extend(local.harness_errors);
        for (k, v) in local.known {
          *a.known.entry(k).or_insert(0) += v;
        }
      });
    }
  });
  let mut agg = agg.into_inner().unwrap();
  let wall = started.elapsed().as_secs_f64();
  for (k, n) in &agg.known {
    println!("KNOWN-FINDING: {} (seen {} times)", k, n);
  }
  let mut exit_code = 0;
  if !agg.harness_errors.is_empty() {
    for e in agg.harness_errors.iter().take(5) {
      eprintln!("HARNESS-ERROR: {}", e);
    }
    exit_code = 2;
  }
  // deterministic choice: the violation with the lowest run index
  agg.violations.sort_by_key(|v| v.0);
  let mut violation_count = 0;
  if let Some((idx, params, tapes, v)) = agg.violations.first().cloned() {
    violation_count = agg.violations.len();
    let budget: u64 = std::env::var("VERIF_SHRINK_BUDGET")
      .ok()
      .and_then(|s| s.parse().ok())
      .unwrap_or(600);
    let (min_tapes, execs) =
      shrink(spec, tier, &params, &tapes, &v.property, &v.signature, budget);
    // re-execute the minimised tape to get its own detail
    let (out, rec) = exec_case(spec, tier, &params, &min_tapes);
    let mv = out
      .violations
      .iter()
      .find(|x| x.property == v.property && x.signature == v.signature)
      .cloned()
      .unwrap_or(v.clone());
    let rf = ReplayFile {
      property: mv.property.clone(),
      oracle: mv.oracle.clone(),
      signature: mv.signature.clone(),
      message: mv.message.clone(),
      verif_seed,
      run_index: idx,
      tier: tier.name().to_string(),
      params: params.clone(),
      tapes: rec,
      detail: mv.detail.clone(),
      minimised: true,
      shrink_executions: execs,
      original_tape_len: tapes.total_len(),
    };
    let dir = verif_root().join("replays");
    let _ = std::fs::create_dir_all(&dir);
    let path = dir.join(format!(
      "{}-{}-{}.json",
      spec.id,
      verif_seed,
      idx
    ));
    std::fs::write(&path, serde_json::to_string_pretty(&rf).unwrap())
      .expect("write replay file");
    // fresh-process replay gate
    let exe = std::env::current_exe().expect("current exe");
    let status = std::process::Command::new(exe)
      .arg("replay")
      .arg(&path)
      .arg("--quiet")
      .status();
    match status {
      Ok(s) if s.code() == Some(1) => {
        println!("violation: {}", mv.message);
        println!(
          "VIOLATION property={} replay={}",
          mv.property,
          path.display()
        );
        exit_code = 1;
      }
      other => {
        eprintln!(
          "HARNESS-ERROR: replay of {} in a fresh process did not reproduce ({:?})",
          path.display(),
          other
        );
        exit_code = 2;
      }
    }
  }
  write_evidence(spec, tier, verif_seed, &agg, wall, violation_count);
  println!(
    "{}: {} cases in {:.1}s ({:.0} cases/h), distinct non-trivial {}, violations {}, exit {}",
    spec.id,
    agg.evaluations,
    wall,
    agg.evaluations as f64 / wall.max(0.001) * 3600.0,
    agg.nontrivial.len(),
    violation_count,
    exit_code
  );
  RunSummary { exit_code }
}

fn write_evidence(
  spec: &CheckSpec,
  tier: Tier,
  verif_seed: u64,
  agg: &Agg,
  wall: f64,
  violations: usize,
) {
  let mut faults = serde_json::Map::new();
  let mut probes = serde_json::Map::new();
  let mut policies = serde_json::Map::new();
  let mut other = serde_json::Map::new();
  for (k, v) in &agg.counters {
    if let Some(f) = k.strip_prefix("fault.") {
      faults.insert(f.to_string(), json!(v));
    } else if let Some(p) = k.strip_prefix("probe.") {
      probes.insert(p.to_string(), json!(v));
    } else if let Some(p) = k.strip_prefix("policy.") {
      policies.insert(p.to_string(), json!(v));
    } else {
      other.insert(k.clone(), json!(v));
    }
  }
  let unreached: Vec<String> = probes
    .iter()
    .filter(|(_, v)| v.as_u64() == Some(0))
    .map(|(k, _)| k.clone())
    .collect();
  let mut distinct = serde_json::Map::new();
  for (k, v) in &agg.distinct {
    distinct.insert(k.to_string(), json!(v.len()));
  }
  let known: BTreeSet<&String> = agg.known.keys().collect();
  let ev = json!({
    "property_id": spec.id,
    "tier": tier.name(),
    "seed": verif_seed,
    "level": spec.level,
    "coverage": {
      "evaluations": agg.evaluations,
      "distinct_nontrivial": agg.nontrivial.len(),
      "rule": spec.rule,
      "samples": agg.samples,
      "exhaustive": false,
      "simulated_runs": other.get("builds").cloned().unwrap_or(json!(agg.evaluations)),
      "runs_per_hour": (agg.evaluations as f64 / wall.max(0.001) * 3600.0) as u64,
      "simulated_time_units_ordering_only": other.get("sim_time").cloned().unwrap_or(json!(0)),
      "faults_fired": faults,
      "reach_probes": probes,
      "unreached_probes": unreached,
      "scheduling_policies": policies,
      "distinct_sets": distinct,
      "counters": other,
      "components_real": spec.real_components,
      "components_stub": spec.stub_components,
      "known_findings_seen": known,
    },
    "assumptions": spec.assumptions,
    "wall_s": wall,
    "violations": violations,
  });
  let dir = verif_root().join("evidence");
  let _ = std::fs::create_dir_all(&dir);
  let path = dir.join(format!("{}.json", spec.id));
  std::fs::write(&path, serde_json::to_string_pretty(&ev).unwrap())
    .expect("write evidence");
  // the same document, kept per tier so that a later quick run does not
  // erase what the last thorough run covered
  let by_tier = dir.join("by_tier");
  let _ = std::fs::create_dir_all(&by_tier);
  let _ = std::fs::write(
    by_tier.join(format!(
      "{}.{}.json",
      spec.id,
      match tier {
        Tier::Quick => "quick",
        Tier::Thorough => "thorough",
      }
    )),
    serde_json::to_string_pretty(&ev).unwrap(),
  );
}

/// `dsim replay <file>`: exit 1 + VIOLATION line when the violation
/// reproduces, 0 when it does not.
pub fn replay_file(
  specs: &[CheckSpec],
  path: &str,
  quiet: bool,
) -> i32 {
  let text = match std::fs::read_to_string(path) {
    Ok(t) => t,
    Err(e) => {
      eprintln!("cannot read {}: {}", path, e);
      return 2;
    }
  };
  let rf: ReplayFile = match serde_json::from_str(&text) {
    Ok(r) => r,
    Err(e) => {
      eprintln!("cannot parse {}: {}", path, e);
      return 2;
    }
  };
  let Some(spec) = specs.iter().find(|s| s.id == rf.property) else {
    eprintln!("unknown property {}", rf.property);
    return 2;
  };
  let tier = tier_from(&rf.tier);
  let (out, rec) = exec_case(spec, tier, &rf.params, &rf.tapes);
  if let Some(e) = &out.harness_error {
    eprintln!("HARNESS-ERROR: {}", e);
    return 2;
  }
  let hit = out
    .violations
    .iter()
    .find(|v| v.property == rf.property && v.signature == rf.signature);
  match hit {
    Some(v) => {
      if !quiet {
        println!("replayed tapes: {} draws", rec.total_len());
        println!("violation: {}", v.message);
        println!(
          "detail: {}",
          serde_json::to_string_pretty(&v.detail).unwrap_or_default()
        );
        println!("VIOLATION property={} replay={}", v.property, path);
      }
      1
    }
    None => {
      if !quiet {
        println!(
          "no violation with signature {:?} reproduced (violations seen: {:?})",
          rf.signature,
          out
            .violations
            .iter()
            .map(|v| v.signature.clone())
            .collect::<Vec<_>>()
        );
      }
      0
    }
  }
}

#[allow(dead_code)]
pub fn streams() -> [Stream; 5] {
  STREAMS
}
