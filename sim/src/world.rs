//! The simulated world: origins, entries, two storage tiers, structured module
//! descriptions (what the reference models read) and their rendering to source
//! text (what deno_graph parses), request identities and fault plans.

use std::collections::BTreeMap;
use std::collections::BTreeSet;

use serde::Deserialize;
use serde::Serialize;
use serde_json::Value;
use serde_json::json;

use crate::tape::Stream;
use crate::tape::Tape;

pub const H_FILE: &str = "file:///w/";
pub const H_A: &str = "https://a.test/";
pub const H_B: &str = "https://b.test/";
pub const H_C: &str = "http://c.test/";
pub const REGISTRY: &str = "https://jsr.io/";

#[derive(Clone, Debug, PartialEq, Eq, Serialize, Deserialize)]
pub enum Entry {
  Module {
    #[serde(with = "bytes_as_text")]
    bytes: Vec<u8>,
    headers: Vec<(String, String)>,
    /// final specifier differs from the requested one (implicit redirect)
    final_url: Option<String>,
  },
  Redirect(String),
  External,
  Missing,
  Error(String),
}

mod bytes_as_text {
  use serde::Deserialize;
  use serde::Deserializer;
  use serde::Serializer;
  pub fn serialize<S: Serializer>(b: &Vec<u8>, s: S) -> Result<S::Ok, S::Error> {
    match std::str::from_utf8(b) {
      Ok(t) if !t.contains('\u{0}') => s.serialize_str(t),
      _ => {
        let hex: String = b.iter().map(|x| format!("{:02x}", x)).collect();
        s.serialize_str(&format!("hex:{}", hex))
      }
    }
  }
  pub fn deserialize<'de, D: Deserializer<'de>>(
    d: D,
  ) -> Result<Vec<u8>, D::Error> {
    let s = String::deserialize(d)?;
    if let Some(h) = s.strip_prefix("hex:") {
      Ok(
        (0..h.len() / 2)
          .map(|i| u8::from_str_radix(&h[2 * i..2 * i + 2], 16).unwrap_or(0))
          .collect(),
      )
    } else {
      Ok(s.into_bytes())
    }
  }
}

impl Entry {
  pub fn module(text: impl Into<Vec<u8>>) -> Entry {
    Entry::Module {
      bytes: text.into(),
      headers: vec![],
      final_url: None,
    }
  }
  pub fn kind(&self) -> &'static str {
    match self {
      Entry::Module { .. } => "module",
      Entry::Redirect(_) => "redirect",
      Entry::External => "external",
      Entry::Missing => "missing",
      Entry::Error(_) => "error",
    }
  }
}

/// Cache setting as a small integer so request identities are plain data.
pub const CS_ONLY: u8 = 0;
pub const CS_USE: u8 = 1;
pub const CS_RELOAD: u8 = 2;

pub fn cs_name(cs: u8) -> &'static str {
  match cs {
    CS_ONLY => "only",
    CS_USE => "use",
    _ => "reload",
  }
}

/// Request identity: answers are a function of this and never of arrival order.
#[derive(
  Clone, Debug, PartialEq, Eq, PartialOrd, Ord, Hash, Serialize, Deserialize,
)]
pub struct ReqId {
  pub url: String,
  pub cs: u8,
  pub nth: u32,
  /// load vs ensure_cached
  pub ensure: bool,
}

impl ReqId {
  pub fn label(&self) -> String {
    format!(
      "{}{}#{}@{}",
      if self.ensure { "ensure:" } else { "" },
      self.url,
      self.nth,
      cs_name(self.cs)
    )
  }
}

#[derive(Clone, Debug, PartialEq, Eq, Serialize, Deserialize)]
pub enum Fault {
  NotFound,
  Error,
  ChecksumIntegrity,
  RedirectTo(String),
  External,
  FinalUrl(String),
  Truncate(u32),
  BitFlip(u32),
  Garbage(u32),
  BadCharset,
  Unparsable,
  /// registry metadata: syntactically valid JSON of the wrong shape
  WrongShape,
  /// registry metadata: not JSON
  MalformedJson,
}

impl Fault {
  pub fn kind(&self) -> &'static str {
    match self {
      Fault::NotFound => "not-found",
      Fault::Error => "error",
      Fault::ChecksumIntegrity => "checksum-integrity",
      Fault::RedirectTo(_) => "redirect",
      Fault::External => "external",
      Fault::FinalUrl(_) => "final-url-differs",
      Fault::Truncate(_) => "truncate",
      Fault::BitFlip(_) => "bit-flip",
      Fault::Garbage(_) => "garbage",
      Fault::BadCharset => "bad-charset-header",
      Fault::Unparsable => "unparsable-source",
      Fault::WrongShape => "wrong-shape",
      Fault::MalformedJson => "malformed-json",
    }
  }
}

pub const FAULT_KINDS: [&str; 13] = [
  "not-found",
  "error",
  "checksum-integrity",
  "redirect",
  "external",
  "final-url-differs",
  "truncate",
  "bit-flip",
  "garbage",
  "bad-charset-header",
  "unparsable-source",
  "wrong-shape",
  "malformed-json",
];

#[derive(Clone, Debug, Default, PartialEq, Eq, Serialize, Deserialize)]
pub struct FaultPlan {
  pub faults: Vec<(ReqId, Fault)>,
}

impl FaultPlan {
  pub fn get(&self, id: &ReqId) -> Option<&Fault> {
    self.faults.iter().find(|(r, _)| r == id).map(|(_, f)| f)
  }
}

// ---------------------------------------------------------------------------
// structured module descriptions

#[derive(Clone, Copy, Debug, PartialEq, Eq, Serialize, Deserialize, Hash, PartialOrd, Ord)]
pub enum Form {
  Default,
  Named,
  Namespace,
  SideEffect,
  Defer,
  Source,
  TypeOnly,
  ImportTypeExpr,
  ExportStar,
  ExportNamed,
  ExportNs,
  ExportType,
  ExportTypeStar,
  ImportEquals,
  ExportImportEquals,
  ImportTypeEquals,
  Dynamic,
  DynamicTpl,
  DynamicSource,
  DynamicDefer,
  Require,
  TripleSlashPath,
  TripleSlashTypes,
  JsDocImport,
  JsDocType,
}

impl Form {
  pub fn is_dynamic(self) -> bool {
    matches!(
      self,
      Form::Dynamic
        | Form::DynamicTpl
        | Form::DynamicSource
        | Form::DynamicDefer
        | Form::Require
    )
  }
  /// type-only syntactic forms (ImportKind::TsType)
  pub fn is_ts_type(self) -> bool {
    matches!(
      self,
      Form::TypeOnly
        | Form::ImportTypeExpr
        | Form::ExportType
        | Form::ExportTypeStar
        | Form::ImportTypeEquals
    )
  }
  pub fn is_comment_form(self) -> bool {
    matches!(
      self,
      Form::TripleSlashPath
        | Form::TripleSlashTypes
        | Form::JsDocImport
        | Form::JsDocType
    )
  }
  pub fn is_source_phase(self) -> bool {
    matches!(self, Form::Source | Form::DynamicSource)
  }
  pub fn needs_typescript(self) -> bool {
    self.is_ts_type()
      || matches!(self, Form::ImportEquals | Form::ExportImportEquals)
  }
}

#[derive(Clone, Debug, PartialEq, Eq, Serialize, Deserialize)]
pub struct Item {
  pub form: Form,
  pub spec: String,
  /// `with { type: "<attr>" }`
  pub attr: Option<String>,
  /// `// @ts-types="T"` (true) or `// @deno-types="T"` (false) leading pragma
  pub types_pragma: Option<(bool, String)>,
}

impl Item {
  pub fn new(form: Form, spec: impl Into<String>) -> Item {
    Item {
      form,
      spec: spec.into(),
      attr: None,
      types_pragma: None,
    }
  }
}

#[derive(Clone, Copy, Debug, PartialEq, Eq, Serialize, Deserialize, Hash, PartialOrd, Ord)]
pub enum Lang {
  Ts,
  Mts,
  Cts,
  Tsx,
  Js,
  Mjs,
  Cjs,
  Jsx,
  Dts,
  Dmts,
  Json,
  Wasm,
  Css,
  Unknown,
}

impl Lang {
  pub fn ext(self) -> &'static str {
    match self {
      Lang::Ts => ".ts",
      Lang::Mts => ".mts",
      Lang::Cts => ".cts",
      Lang::Tsx => ".tsx",
      Lang::Js => ".js",
      Lang::Mjs => ".mjs",
      Lang::Cjs => ".cjs",
      Lang::Jsx => ".jsx",
      Lang::Dts => ".d.ts",
      Lang::Dmts => ".d.mts",
      Lang::Json => ".json",
      Lang::Wasm => ".wasm",
      Lang::Css => ".css",
      Lang::Unknown => ".txt",
    }
  }
  pub fn content_type(self) -> &'static str {
    match self {
      Lang::Ts | Lang::Mts | Lang::Cts => "application/typescript",
      Lang::Tsx => "text/tsx",
      Lang::Js | Lang::Mjs | Lang::Cjs => "text/javascript",
      Lang::Jsx => "text/jsx",
      Lang::Dts | Lang::Dmts => "application/typescript",
      Lang::Json => "application/json",
      Lang::Wasm => "application/wasm",
      Lang::Css => "text/css",
      Lang::Unknown => "text/plain",
    }
  }
  pub fn is_typed(self) -> bool {
    matches!(
      self,
      Lang::Ts | Lang::Mts | Lang::Cts | Lang::Tsx | Lang::Dts | Lang::Dmts
    )
  }
  pub fn is_declaration(self) -> bool {
    matches!(self, Lang::Dts | Lang::Dmts)
  }
  pub fn is_jsx(self) -> bool {
    matches!(self, Lang::Tsx | Lang::Jsx)
  }
  pub fn is_script(self) -> bool {
    matches!(
      self,
      Lang::Ts
        | Lang::Mts
        | Lang::Cts
        | Lang::Tsx
        | Lang::Js
        | Lang::Mjs
        | Lang::Cjs
        | Lang::Jsx
        | Lang::Dts
        | Lang::Dmts
    )
  }
}

#[derive(Clone, Debug, PartialEq, Eq, Serialize, Deserialize)]
pub struct ModuleDesc {
  pub url: String,
  pub lang: Lang,
  /// media type comes from a content-type header instead of the extension
  pub by_header: bool,
  pub items: Vec<Item>,
  pub self_types: Option<String>,
  pub jsx_import_source: Option<String>,
  pub jsx_import_source_types: Option<String>,
  pub source_map: Option<String>,
  pub x_typescript_types: Option<String>,
  pub bom: bool,
  pub shebang: bool,
  pub unparsable: bool,
  /// declarations that replace the default filler (fast-check worlds)
  #[serde(default)]
  pub body: Option<String>,
}

impl ModuleDesc {
  pub fn new(url: impl Into<String>, lang: Lang) -> ModuleDesc {
    ModuleDesc {
      url: url.into(),
      lang,
      by_header: false,
      items: vec![],
      self_types: None,
      jsx_import_source: None,
      jsx_import_source_types: None,
      source_map: None,
      x_typescript_types: None,
      bom: false,
      shebang: false,
      unparsable: false,
      body: None,
    }
  }

  pub fn headers(&self) -> Vec<(String, String)> {
    let mut h = vec![];
    if self.by_header {
      h.push((
        "content-type".to_string(),
        self.lang.content_type().to_string(),
      ));
    }
    if let Some(t) = &self.x_typescript_types {
      h.push(("x-typescript-types".to_string(), t.clone()));
    }
    h
  }

  pub fn render(&self) -> Vec<u8> {
    match self.lang {
      Lang::Json => return b"{\"a\": 1}\n".to_vec(),
      Lang::Wasm => {
        return wasm_module(
          &self
            .items
            .iter()
            .map(|i| i.spec.as_str())
            .collect::<Vec<_>>(),
        );
      }
      Lang::Css => return b"a { color: red }\n".to_vec(),
      Lang::Unknown => return b"plain text\n".to_vec(),
      _ => {}
    }
    let mut out = String::new();
    if self.bom {
      out.push('\u{feff}');
    }
    if self.shebang {
      out.push_str("#!/usr/bin/env -S deno run\n");
    }
    // leading comment block: triple slash refs and pragmas
    if let Some(t) = &self.self_types {
      out.push_str(&format!("// @ts-self-types=\"{}\"\n", t));
    }
    for it in &self.items {
      match it.form {
        Form::TripleSlashPath => {
          out.push_str(&format!("/// <reference path=\"{}\" />\n", it.spec))
        }
        Form::TripleSlashTypes => {
          out.push_str(&format!("/// <reference types=\"{}\" />\n", it.spec))
        }
        _ => {}
      }
    }
    if let Some(s) = &self.jsx_import_source {
      out.push_str(&format!("/** @jsxImportSource {} */\n", s));
    }
    if let Some(s) = &self.jsx_import_source_types {
      out.push_str(&format!("/** @jsxImportSourceTypes {} */\n", s));
    }
    let decl = self.lang.is_declaration();
    for (i, it) in self.items.iter().enumerate() {
      if let Some((ts_types, t)) = &it.types_pragma {
        if i % 2 == 1 {
          // an ordinary comment above the pragma: the pragma stays the last
          // leading comment of the statement
          out.push_str(&format!("// types for item {}\n", i));
        }
        if *ts_types {
          out.push_str(&format!("// @ts-types=\"{}\"\n", t));
        } else {
          out.push_str(&format!("// @deno-types=\"{}\"\n", t));
        }
      }
      if it.types_pragma.is_none()
        && i % 5 == 2
        && !it.form.is_comment_form()
        && !it.form.is_dynamic()
      {
        // a pragma that is not the last leading comment of the statement
        // does not apply
        out.push_str("// @deno-types=\"./ghost.d.ts\"\n");
        out.push_str("// (not the last leading comment: ignored)\n");
      }
      let with = match &it.attr {
        Some(a) => format!(" with {{ type: \"{}\" }}", a),
        None => String::new(),
      };
      let s = &it.spec;
      let line = match it.form {
        Form::Default => format!("import d{i} from \"{s}\"{with};"),
        Form::Named => format!("import {{ a as n{i} }} from \"{s}\"{with};"),
        Form::Namespace => format!("import * as ns{i} from \"{s}\"{with};"),
        Form::SideEffect => format!("import \"{s}\"{with};"),
        Form::Defer => format!("import defer * as df{i} from \"{s}\"{with};"),
        Form::Source => format!("import source w{i} from \"{s}\";"),
        Form::TypeOnly => format!("import type {{ T as T{i} }} from \"{s}\";"),
        Form::ImportTypeExpr => {
          if decl {
            format!("export declare type X{i} = import(\"{s}\").T;")
          } else {
            format!("export type X{i} = import(\"{s}\").T;")
          }
        }
        Form::ExportStar => format!("export * from \"{s}\"{with};"),
        Form::ExportNamed => format!("export {{ a as e{i} }} from \"{s}\"{with};"),
        Form::ExportNs => format!("export * as en{i} from \"{s}\"{with};"),
        Form::ExportType => format!("export type {{ T as ET{i} }} from \"{s}\";"),
        Form::ExportTypeStar => format!("export type * from \"{s}\";"),
        Form::ImportEquals => format!("import ie{i} = require(\"{s}\");"),
        Form::ExportImportEquals => {
          format!("export import eie{i} = require(\"{s}\");")
        }
        Form::ImportTypeEquals => {
          format!("import type ite{i} = require(\"{s}\");")
        }
        Form::Dynamic => match &it.attr {
          Some(a) => format!(
            "const dy{i} = import(\"{s}\", {{ with: {{ type: \"{a}\" }} }});"
          ),
          None => format!("const dy{i} = import(\"{s}\");"),
        },
        Form::DynamicTpl => format!("const dt{i} = import(`{s}`);"),
        Form::DynamicSource => format!("const ds{i} = import.source(\"{s}\");"),
        Form::DynamicDefer => format!("const dd{i} = import.defer(\"{s}\");"),
        Form::Require => format!("const rq{i} = require(\"{s}\");"),
        Form::JsDocImport => format!("/** @import {{ T{i} }} from \"{s}\" */"),
        Form::JsDocType => {
          format!("/** @type {{import(\"{s}\").T}} */\nexport const jd{i} = null;")
        }
        Form::TripleSlashPath | Form::TripleSlashTypes => String::new(),
      };
      if !line.is_empty() {
        out.push_str(&line);
        out.push('\n');
      }
    }
    if let Some(b) = &self.body {
      out.push_str(b);
      if !b.ends_with('\n') {
        out.push('\n');
      }
    } else if decl {
      out.push_str("export declare const a: number;\nexport declare type T = string;\n");
    } else if self.lang.is_typed() {
      out.push_str("export const a: number = 1;\nexport type T = string;\nexport default a;\n");
    } else {
      out.push_str("export const a = 1;\nexport default a;\n");
    }
    if self.unparsable {
      out.push_str("export const = ;;; {{{\n");
    }
    if let Some(sm) = &self.source_map {
      out.push_str(&format!("//# sourceMappingURL={}\n", sm));
    }
    out.into_bytes()
  }
}

fn leb(mut n: usize, out: &mut Vec<u8>) {
  loop {
    let b = (n & 0x7f) as u8;
    n >>= 7;
    if n == 0 {
      out.push(b);
      break;
    } else {
      out.push(b | 0x80);
    }
  }
}

/// A minimal valid wasm module importing one function from each of
/// `imports` and exporting one global.
pub fn wasm_module(imports: &[&str]) -> Vec<u8> {
  let mut m = vec![0x00, 0x61, 0x73, 0x6D, 0x01, 0x00, 0x00, 0x00];
  // type section: one func type () -> ()
  m.extend_from_slice(&[0x01, 0x04, 0x01, 0x60, 0x00, 0x00]);
  if !imports.is_empty() {
    let mut body = vec![];
    leb(imports.len(), &mut body);
    for imp in imports {
      leb(imp.len(), &mut body);
      body.extend_from_slice(imp.as_bytes());
      body.extend_from_slice(&[0x01, b'f', 0x00, 0x00]);
    }
    m.push(0x02);
    leb(body.len(), &mut m);
    m.extend_from_slice(&body);
  }
  // global section: one immutable i32 global = 42
  m.extend_from_slice(&[0x06, 0x06, 0x01, 0x7f, 0x00, 0x41, 0x2a, 0x0b]);
  // export section: export global 0 as "a"
  m.extend_from_slice(&[0x07, 0x05, 0x01, 0x01, b'a', 0x03, 0x00]);
  m
}

// ---------------------------------------------------------------------------
// registry

#[derive(Clone, Debug, PartialEq, Eq, Serialize, Deserialize)]
pub enum Exports {
  Single(String),
  Map(BTreeMap<String, String>),
}

#[derive(Clone, Copy, Debug, PartialEq, Eq, Serialize, Deserialize)]
pub enum Embed {
  None,
  V2,
  V1,
  V2RoundTrip,
}

#[derive(Clone, Debug, PartialEq, Eq, Serialize, Deserialize)]
pub struct PkgVersion {
  pub yanked: bool,
  /// seconds since epoch
  pub created_at: Option<i64>,
  pub exports: Exports,
  /// "/mod.ts" -> description
  pub files: BTreeMap<String, ModuleDesc>,
  pub embed: Embed,
  /// files left out of the manifest
  pub manifest_omit: BTreeSet<String>,
  /// manifest checksum prefix is not sha256-
  pub manifest_bad_prefix: BTreeSet<String>,
  pub lockfile_checksum: Option<String>,
  /// `<v>_meta.json` absent from the registry
  pub manifest_missing: bool,
}

#[derive(Clone, Debug, Default, PartialEq, Eq, Serialize, Deserialize)]
pub struct Package {
  pub versions: BTreeMap<String, PkgVersion>,
  /// the cache tier holds a stale meta.json listing only these versions
  pub stale_cached_meta: Option<BTreeSet<String>>,
}

#[derive(Clone, Debug, Default, PartialEq, Eq, Serialize, Deserialize)]
pub struct Registry {
  pub packages: BTreeMap<String, Package>,
}

pub fn sha256_hex(bytes: &[u8]) -> String {
  use sha2::Digest;
  let mut h = sha2::Sha256::new();
  h.update(bytes);
  format!("{:x}", h.finalize())
}

// ---------------------------------------------------------------------------
// resolver configuration

#[derive(Clone, Debug, Default, PartialEq, Eq, Serialize, Deserialize)]
pub struct ResolverCfg {
  /// specifier text -> target url (both kinds) ; "!" target = failure
  pub map: BTreeMap<String, String>,
  /// specifier text -> target url for ResolutionKind::Types only
  pub types_map: BTreeMap<String, String>,
  /// module url -> types url (`resolve_types`); "!" = error
  pub resolve_types: BTreeMap<String, String>,
  pub default_jsx_import_source: Option<String>,
  pub default_jsx_import_source_types: Option<String>,
}

#[derive(Clone, Debug, Default, PartialEq, Eq, Serialize, Deserialize)]
pub struct NpmCfg {
  pub enabled: bool,
  /// package names whose resolution fails
  pub fail: BTreeSet<String>,
  pub dep_graph_fails: bool,
}

#[derive(Clone, Debug, Default, PartialEq, Eq, Serialize, Deserialize)]
pub struct LockfileInit {
  pub remote: BTreeMap<String, String>,
  pub pkg_manifests: BTreeMap<String, String>,
  pub redirects: BTreeMap<String, String>,
  /// "jsr:@a/b@^1" style req -> version
  pub jsr_specifiers: BTreeMap<String, String>,
  pub present: bool,
}

#[derive(Clone, Debug, Default, PartialEq, Eq, Serialize, Deserialize)]
pub struct World {
  pub remote: BTreeMap<String, Entry>,
  /// key present => cached. `None` => identical to remote, `Some` => a
  /// different (stale/corrupt) copy.
  pub cache: BTreeMap<String, Option<Entry>>,
  /// structured descriptions, for models (by url)
  pub descs: BTreeMap<String, ModuleDesc>,
  pub registry: Registry,
  pub roots: Vec<String>,
  pub imports: Vec<(String, Vec<String>)>,
  pub lockfile: LockfileInit,
  pub resolver: Option<ResolverCfg>,
  pub npm: NpmCfg,
  /// directory listing for template dynamic imports: dir path -> entries
  /// (name, is_dir)
  pub dirs: BTreeMap<String, Vec<(String, bool)>>,
  /// vendored-and-modified files for which the loader ignores checksums
  pub vendored: BTreeSet<String>,
}

impl World {
  pub fn add_desc(&mut self, d: ModuleDesc) {
    let e = Entry::Module {
      bytes: d.render(),
      headers: d.headers(),
      final_url: None,
    };
    self.remote.insert(d.url.clone(), e);
    self.descs.insert(d.url.clone(), d);
  }

  pub fn is_registry_url(&self, url: &str) -> bool {
    url.starts_with(REGISTRY)
  }

  /// The entry that answers a request (before faults).
  pub fn lookup(&self, url: &str, cs: u8) -> Entry {
    let remote = || self.remote.get(url).cloned().unwrap_or(Entry::Missing);
    match cs {
      CS_ONLY => match self.cache.get(url) {
        Some(Some(e)) => e.clone(),
        Some(None) => remote(),
        None => Entry::Missing,
      },
      CS_USE => match self.cache.get(url) {
        Some(Some(e)) => e.clone(),
        _ => remote(),
      },
      _ => remote(),
    }
  }

  pub fn to_json(&self) -> Value {
    serde_json::to_value(self).unwrap_or(json!(null))
  }

  /// Render the registry into `remote` entries (meta.json, version metas,
  /// files). `embed_info` computes embedded module info for a file.
  pub fn render_registry(
    &mut self,
    embed_info: &dyn Fn(&ModuleDesc, &[u8], Embed) -> Option<Value>,
  ) {
    let reg = self.registry.clone();
    for (name, pkg) in &reg.packages {
      let render_meta = |only: Option<&BTreeSet<String>>| {
        let mut versions = serde_json::Map::new();
        for (v, pv) in &pkg.versions {
          if let Some(o) = only {
            if !o.contains(v) {
              continue;
            }
          }
          let mut o = serde_json::Map::new();
          if pv.yanked {
            o.insert("yanked".into(), json!(true));
          }
          if let Some(ts) = pv.created_at {
            let dt = chrono::DateTime::<chrono::Utc>::from_timestamp(ts, 0)
              .unwrap();
            o.insert("createdAt".into(), serde_json::to_value(dt).unwrap());
          }
          versions.insert(v.clone(), Value::Object(o));
        }
        serde_json::to_vec(&json!({ "versions": versions })).unwrap()
      };
      let meta_url = format!("{}{}/meta.json", REGISTRY, name);
      self
        .remote
        .insert(meta_url.clone(), Entry::module(render_meta(None)));
      if let Some(stale) = &pkg.stale_cached_meta {
        self
          .cache
          .insert(meta_url, Some(Entry::module(render_meta(Some(stale)))));
      }
      for (v, pv) in &pkg.versions {
        let base = format!("{}{}/{}", REGISTRY, name, v);
        let mut manifest = serde_json::Map::new();
        let mut mg = serde_json::Map::new();
        for (path, desc) in &pv.files {
          let mut d = desc.clone();
          d.url = format!("{}{}", base, path);
          let bytes = d.render();
          if !pv.manifest_omit.contains(path) {
            let prefix = if pv.manifest_bad_prefix.contains(path) {
              "sha512-"
            } else {
              "sha256-"
            };
            manifest.insert(
              path.clone(),
              json!({"size": bytes.len(), "checksum": format!("{}{}", prefix, sha256_hex(&bytes))}),
            );
          }
          if pv.embed != Embed::None {
            if let Some(info) = embed_info(&d, &bytes, pv.embed) {
              mg.insert(path.clone(), info);
            }
          }
          self.remote.insert(
            d.url.clone(),
            Entry::Module {
              bytes,
              headers: vec![],
              final_url: None,
            },
          );
          self.descs.insert(d.url.clone(), d);
        }
        let exports = match &pv.exports {
          Exports::Single(s) => json!(s),
          Exports::Map(m) => json!(m),
        };
        let mut vm = serde_json::Map::new();
        vm.insert("exports".into(), exports);
        vm.insert("manifest".into(), Value::Object(manifest));
        match pv.embed {
          Embed::None => {}
          Embed::V1 => {
            vm.insert("moduleGraph1".into(), Value::Object(mg));
          }
          Embed::V2 | Embed::V2RoundTrip => {
            vm.insert("moduleGraph2".into(), Value::Object(mg));
          }
        }
        if let Some(c) = &pv.lockfile_checksum {
          vm.insert("lockfileChecksum".into(), json!(c));
        }
        if !pv.manifest_missing {
          self.remote.insert(
            format!("{}_meta.json", base),
            Entry::module(serde_json::to_vec(&Value::Object(vm)).unwrap()),
          );
        }
      }
    }
  }
}

// ---------------------------------------------------------------------------
// generator of plain (non-registry) worlds

#[derive(Clone, Debug)]
pub struct GenCfg {
  pub max_modules: u32,
  pub hosts: Vec<&'static str>,
  pub langs: Vec<Lang>,
  pub forms: Vec<Form>,
  pub allow_redirects: bool,
  pub allow_missing: bool,
  pub allow_errors: bool,
  pub allow_external: bool,
  pub allow_attrs: bool,
  pub allow_pragmas: bool,
  pub allow_special_schemes: bool,
  pub allow_by_header: bool,
  pub allow_bare: bool,
  pub allow_unparsable: bool,
  pub allow_bom: bool,
  pub mixed_attrs: bool,
  pub max_items: u32,
  pub max_roots: u32,
  pub allow_graph_imports: bool,
}

impl GenCfg {
  pub fn basic() -> GenCfg {
    GenCfg {
      max_modules: 10,
      hosts: vec![H_FILE, H_A, H_B, H_C],
      langs: vec![
        Lang::Ts,
        Lang::Ts,
        Lang::Ts,
        Lang::Js,
        Lang::Js,
        Lang::Tsx,
        Lang::Jsx,
        Lang::Mjs,
        Lang::Mts,
        Lang::Dts,
        Lang::Json,
        Lang::Wasm,
        Lang::Unknown,
      ],
      forms: vec![
        Form::Default,
        Form::Named,
        Form::Namespace,
        Form::SideEffect,
        Form::TypeOnly,
        Form::ImportTypeExpr,
        Form::ExportStar,
        Form::ExportNamed,
        Form::ExportNs,
        Form::ExportType,
        Form::Dynamic,
        Form::Dynamic,
        Form::DynamicTpl,
        Form::TripleSlashPath,
        Form::TripleSlashTypes,
        Form::JsDocImport,
        Form::JsDocType,
        Form::ImportEquals,
        Form::Defer,
        Form::Source,
      ],
      allow_redirects: true,
      allow_missing: true,
      allow_errors: true,
      allow_external: true,
      allow_attrs: true,
      allow_pragmas: true,
      allow_special_schemes: true,
      allow_by_header: true,
      allow_bare: true,
      allow_unparsable: true,
      allow_bom: true,
      mixed_attrs: false,
      max_items: 5,
      max_roots: 3,
      allow_graph_imports: true,
    }
  }
}

pub fn form_ok_for(form: Form, lang: Lang) -> bool {
  if !lang.is_script() {
    return lang == Lang::Wasm && form == Form::Default;
  }
  if form.needs_typescript() && !lang.is_typed() {
    return false;
  }
  match form {
    Form::JsDocImport | Form::JsDocType => !lang.is_typed(),
    Form::Require => matches!(lang, Lang::Cjs | Lang::Cts | Lang::Js),
    // declaration files: only declarations
    Form::Dynamic
    | Form::DynamicTpl
    | Form::DynamicSource
    | Form::DynamicDefer
    | Form::Defer
    | Form::Source
    | Form::SideEffect => !lang.is_declaration(),
    _ => true,
  }
}

fn rel_or_abs(tape: &mut Tape, from: &str, to: &str) -> String {
  if from.starts_with("http") && to.starts_with("file:///") {
    // a remote module naming a local file: the same url can be spelled in
    // several ways
    match tape.draw(Stream::World, 4) {
      1 => return format!("file:/{}", &to["file:///".len()..]),
      2 => return format!("FILE:///{}", &to["file:///".len()..]),
      _ => {}
    }
  }
  // same directory => relative most of the time
  let fdir = &from[..from.rfind('/').map(|i| i + 1).unwrap_or(0)];
  if to.starts_with(fdir) && !to[fdir.len()..].contains('/') {
    if tape.draw(Stream::World, 4) != 3 {
      return format!("./{}", &to[fdir.len()..]);
    }
  }
  to.to_string()
}

/// Generate a plain-URL world from the `world` stream.
pub fn gen_world(tape: &mut Tape, cfg: &GenCfg) -> World {
  let mut w = World::default();
  let n = if tape.draw(Stream::World, 4) == 0 {
    tape.small(Stream::World, 1, cfg.max_modules.max(1))
  } else {
    tape.range(Stream::World, 2.min(cfg.max_modules.max(1)), cfg.max_modules.max(1))
  };
  // hosts used by this world (swarm: often a single host)
  let single_host = tape.draw(Stream::World, 3) == 0;
  let host0 = *tape.pick(Stream::World, &cfg.hosts);
  let mut urls: Vec<(String, Lang, bool)> = vec![];
  for i in 0..n {
    let host = if single_host {
      host0
    } else {
      *tape.pick(Stream::World, &cfg.hosts)
    };
    let lang = if i == 0 {
      // first module is code more often than not
      *tape.pick(Stream::World, &[Lang::Ts, Lang::Ts, Lang::Js, Lang::Tsx, Lang::Jsx, Lang::Mjs])
    } else {
      *tape.pick(Stream::World, &cfg.langs)
    };
    // (a declaration file is one by its `.d.ts` name only: the content types
    // for TypeScript do not distinguish it)
    let by_header = cfg.allow_by_header
      && !lang.is_declaration()
      && !host.starts_with("file:")
      && tape.draw(Stream::World, 6) == 5;
    let url = if by_header {
      format!("{}m{}", host, i)
    } else {
      format!("{}m{}{}", host, i, lang.ext())
    };
    urls.push((url, lang, by_header));
  }
  // extra targets
  let mut targets: Vec<String> = urls.iter().map(|u| u.0.clone()).collect();
  let mut extra = 0;
  if cfg.allow_missing && tape.draw(Stream::World, 3) == 2 {
    let host = *tape.pick(Stream::World, &cfg.hosts);
    targets.push(format!("{}missing{}.ts", host, extra));
    extra += 1;
  }
  if cfg.allow_errors && tape.draw(Stream::World, 5) == 4 {
    let host = *tape.pick(Stream::World, &cfg.hosts);
    let u = format!("{}err{}.ts", host, extra);
    w.remote.insert(u.clone(), Entry::Error("simulated loader error".into()));
    targets.push(u);
    extra += 1;
  }
  if cfg.allow_external && tape.draw(Stream::World, 6) == 5 {
    let host = *tape.pick(Stream::World, &cfg.hosts);
    let u = format!("{}ext{}.ts", host, extra);
    w.remote.insert(u.clone(), Entry::External);
    targets.push(u);
    extra += 1;
  }
  if cfg.allow_redirects {
    let k = tape.small(Stream::World, 0, 3);
    for r in 0..k {
      // redirect sources only on remote hosts
      let host = *tape.pick(Stream::World, &[H_A, H_B, H_C]);
      let to = targets[tape.draw(Stream::World, targets.len() as u32) as usize].clone();
      let u = format!("{}r{}.ts", host, r);
      w.remote.insert(u.clone(), Entry::Redirect(to));
      targets.push(u);
    }
  }
  let _ = extra;
  let special: Vec<&str> = vec![
    "node:fs",
    "npm:chalk@5",
    "npm:@types/x@1.0.0/sub",
    "data:application/typescript;base64,ZXhwb3J0IGNvbnN0IGEgPSAxOw==",
    "data:text/javascript,export const a = 1;",
    "jsr:@x/y@1",
    "bare",
    "bare/sub",
    "npm:",
    "jsr:@x/y@latest",
  ];
  let attr_pool = ["json", "text", "bytes", "css", "yaml", "bogus"];
  for (idx, (url, lang, by_header)) in urls.iter().enumerate() {
    let mut d = ModuleDesc::new(url.clone(), *lang);
    d.by_header = *by_header;
    if lang.is_script() {
      let k = if tape.draw(Stream::World, 5) == 0 {
        0
      } else {
        tape.range(Stream::World, 1, cfg.max_items.max(1))
      };
      for _ in 0..k {
        let form = *tape.pick(Stream::World, &cfg.forms);
        if !form_ok_for(form, *lang) {
          continue;
        }
        let spec = if cfg.allow_special_schemes
          && tape.draw(Stream::World, 8) == 7
        {
          let s = *tape.pick(Stream::World, &special);
          if !cfg.allow_bare && s.starts_with("bare") {
            continue;
          }
          s.to_string()
        } else {
          let t = &targets[tape.draw(Stream::World, targets.len() as u32) as usize];
          rel_or_abs(tape, url, t)
        };
        let mut it = Item::new(form, spec.clone());
        // attributes
        if cfg.allow_attrs
          && matches!(
            form,
            Form::Default
              | Form::Named
              | Form::Namespace
              | Form::SideEffect
              | Form::ExportStar
              | Form::ExportNamed
              | Form::Dynamic
          )
        {
          let target_is_json = spec.ends_with(".json");
          if target_is_json && tape.draw(Stream::World, 4) != 3 {
            it.attr = Some("json".into());
          } else if tape.draw(Stream::World, 10) == 9 {
            it.attr =
              Some(tape.pick(Stream::World, &attr_pool).to_string());
          }
          if !cfg.mixed_attrs {
            // same-attribute proviso: reuse the attribute of an earlier
            // import of this spec text
            if let Some(prev) = d.items.iter().find(|p| p.spec == spec) {
              it.attr = prev.attr.clone();
            }
          }
        } else if !cfg.mixed_attrs {
          if let Some(prev) = d.items.iter().find(|p| p.spec == spec) {
            if prev.attr.is_some() {
              continue;
            }
          }
        }
        if cfg.allow_pragmas
          && !form.is_comment_form()
          && !form.is_ts_type()
          // a leading comment of the statement is not a leading comment of
          // the `import(...)` call expression inside it
          && !form.is_dynamic()
          && tape.draw(Stream::World, 10) == 9
        {
          let t = &targets[tape.draw(Stream::World, targets.len() as u32) as usize];
          let ts_types = tape.draw(Stream::World, 2) == 0;
          let text = if tape.draw(Stream::World, 5) == 4 {
            // a types specifier that does not resolve (bare, no import map)
            format!("types/t{}.d.ts", d.items.len())
          } else {
            rel_or_abs(tape, url, t)
          };
          it.types_pragma = Some((ts_types, text));
        }
        d.items.push(it);
      }
      if cfg.allow_pragmas {
        if !lang.is_typed() && tape.draw(Stream::World, 8) == 7 {
          let t = &targets[tape.draw(Stream::World, targets.len() as u32) as usize];
          d.self_types = Some(rel_or_abs(tape, url, t));
        }
        if lang.is_jsx() && tape.draw(Stream::World, 3) == 2 {
          let host = *tape.pick(Stream::World, &cfg.hosts);
          d.jsx_import_source = Some(format!("{}jsx", host));
          if tape.draw(Stream::World, 3) == 2 {
            d.jsx_import_source_types = Some(format!("{}jsxt", host));
          }
        }
        if tape.draw(Stream::World, 12) == 11 {
          d.source_map = Some(format!("./m{}.map", idx));
          // the map itself: missing, present, or behind a redirect
          let dir = &url[..url.rfind('/').map(|i| i + 1).unwrap_or(0)];
          match tape.draw(Stream::World, 3) {
            1 => {
              w.remote.insert(
                format!("{}m{}.map", dir, idx),
                Entry::module("{\"version\":3}"),
              );
            }
            2 if url.starts_with("http") => {
              w.remote.insert(
                format!("{}m{}.map", dir, idx),
                Entry::Redirect(format!("{}maps/m{}.map", dir, idx)),
              );
              w.remote.insert(
                format!("{}maps/m{}.map", dir, idx),
                Entry::module("{\"version\":3}"),
              );
            }
            _ => {}
          }
        }
        if d.by_header && tape.draw(Stream::World, 5) == 4 {
          let t = &targets[tape.draw(Stream::World, targets.len() as u32) as usize];
          d.x_typescript_types = Some(t.clone());
        }
      }
      if cfg.allow_bom && tape.draw(Stream::World, 12) == 11 {
        d.bom = true;
      }
      if tape.draw(Stream::World, 16) == 15 {
        d.shebang = !d.bom;
      }
      if cfg.allow_unparsable && tape.draw(Stream::World, 14) == 13 {
        d.unparsable = true;
      }
    } else if *lang == Lang::Wasm {
      let k = tape.small(Stream::World, 0, 2);
      for _ in 0..k {
        let t = &targets[tape.draw(Stream::World, targets.len() as u32) as usize];
        d.items.push(Item::new(Form::Default, rel_or_abs(tape, url, t)));
      }
    }
    w.add_desc(d);
  }
  // jsx runtime modules for jsx import sources
  let jsx_urls: Vec<String> = w
    .descs
    .values()
    .flat_map(|d| {
      d.jsx_import_source
        .iter()
        .chain(d.jsx_import_source_types.iter())
        .cloned()
        .collect::<Vec<_>>()
    })
    .collect();
  for j in jsx_urls {
    if tape.draw(Stream::World, 4) != 3 {
      let u = format!("{}/jsx-runtime", j);
      let mut d = ModuleDesc::new(u, Lang::Js);
      d.by_header = true;
      w.add_desc(d);
    }
  }
  // implicit redirects (final url differs)
  if cfg.allow_redirects && tape.draw(Stream::World, 6) == 5 {
    let remote_mods: Vec<String> = w
      .descs
      .keys()
      .filter(|u| u.starts_with("http"))
      .cloned()
      .collect();
    if !remote_mods.is_empty() {
      let to = remote_mods
        [tape.draw(Stream::World, remote_mods.len() as u32) as usize]
        .clone();
      let from = format!("{}alias.ts", H_A);
      // make somebody import it
      let importers: Vec<String> = w
        .descs
        .values()
        .filter(|d| d.lang.is_script() && !d.lang.is_declaration())
        .map(|d| d.url.clone())
        .collect();
      if !importers.is_empty() {
        let imp = importers
          [tape.draw(Stream::World, importers.len() as u32) as usize]
          .clone();
        let mut d = w.descs.get(&imp).unwrap().clone();
        d.items.push(Item::new(Form::SideEffect, from.clone()));
        w.add_desc(d);
      }
      // the alias serves exactly what the final url serves
      if let Some(Entry::Module { bytes, headers, .. }) =
        w.remote.get(&to).cloned()
      {
        w.remote.insert(
          from,
          Entry::Module {
            bytes,
            headers,
            final_url: Some(to),
          },
        );
      }
    }
  }
  // directory listings for file: template imports
  let mut listing: Vec<(String, bool)> = w
    .remote
    .keys()
    .filter_map(|u| u.strip_prefix(H_FILE))
    .filter(|r| !r.contains('/'))
    .map(|r| (r.to_string(), false))
    .collect();
  listing.push(("node_modules".into(), true));
  w.dirs.insert("/w".into(), listing);
  // roots
  let nroots = tape.small(Stream::World, 1, cfg.max_roots.max(1)).max(1);
  for r in 0..nroots {
    let u = if r == 0 {
      urls[0].0.clone()
    } else {
      targets[tape.draw(Stream::World, targets.len() as u32) as usize].clone()
    };
    if !w.roots.contains(&u) {
      w.roots.push(u);
    }
  }
  if cfg.allow_graph_imports && tape.draw(Stream::World, 6) == 5 {
    let t = targets[tape.draw(Stream::World, targets.len() as u32) as usize].clone();
    w.imports
      .push((format!("{}deno.json", H_FILE), vec![t]));
  }
  // resolver
  if cfg.allow_bare && tape.draw(Stream::World, 4) == 3 {
    let mut r = ResolverCfg::default();
    let t = targets[tape.draw(Stream::World, targets.len() as u32) as usize].clone();
    r.map.insert("bare".into(), t);
    if tape.draw(Stream::World, 2) == 1 {
      let t = targets[tape.draw(Stream::World, targets.len() as u32) as usize].clone();
      r.types_map.insert("bare/sub".into(), t);
    }
    if tape.draw(Stream::World, 3) == 2 {
      r.map.insert("bare/sub".into(), "!".into());
    }
    if tape.draw(Stream::World, 3) == 2 {
      let js: Vec<String> = w
        .descs
        .values()
        .filter(|d| !d.lang.is_typed() && d.lang.is_script())
        .map(|d| d.url.clone())
        .collect();
      if !js.is_empty() {
        let j = js[tape.draw(Stream::World, js.len() as u32) as usize].clone();
        let t = targets[tape.draw(Stream::World, targets.len() as u32) as usize].clone();
        r.resolve_types.insert(j, t);
      }
    }
    w.resolver = Some(r);
  }
  if !cfg.mixed_attrs {
    enforce_same_attribute_proviso(&mut w);
  }
  w.npm.enabled = tape.draw(Stream::World, 2) == 1;
  if w.npm.enabled && tape.draw(Stream::World, 5) == 4 {
    w.npm.fail.insert("chalk".into());
  }
  if w.npm.enabled && tape.draw(Stream::World, 8) == 7 {
    w.npm.dep_graph_fails = true;
  }
  w
}

/// Where a request for `url` finally lands in this world (explicit and
/// implicit redirects followed, loops cut).
pub fn final_target(w: &World, url: &str) -> String {
  let mut cur = url.to_string();
  let mut seen = BTreeSet::new();
  while seen.insert(cur.clone()) {
    match w.remote.get(&cur) {
      Some(Entry::Redirect(to)) => cur = to.clone(),
      Some(Entry::Module {
        final_url: Some(to),
        ..
      }) => cur = to.clone(),
      _ => break,
    }
  }
  cur
}

pub fn resolve_text(w: &World, from: &str, text: &str) -> String {
  if let Some(r) = &w.resolver {
    if let Some(t) = r.map.get(text) {
      return t.clone();
    }
  }
  match url::Url::parse(from).ok().and_then(|b| {
    if text.starts_with("./") || text.starts_with("../") || text.starts_with('/') {
      b.join(text).ok()
    } else {
      url::Url::parse(text).ok()
    }
  }) {
    Some(u) => u.to_string(),
    None => text.to_string(),
  }
}

fn form_carries_attr(f: Form) -> bool {
  matches!(
    f,
    Form::Default
      | Form::Named
      | Form::Namespace
      | Form::SideEffect
      | Form::ExportStar
      | Form::ExportNamed
      | Form::ExportNs
      | Form::Dynamic
      | Form::Defer
  )
}

/// The statement's proviso: all imports of one target use the same `type`
/// attribute. Also keeps source-phase imports away from targets that are
/// imported in another way (a source-phase import of a non-Wasm module turns
/// the shared entry into an error, which is the same mixing of import kinds).
pub fn enforce_same_attribute_proviso(w: &mut World) {
  // pass 1: per final target, can every import carry an attribute, and which
  // attribute was seen first
  let mut can: BTreeMap<String, bool> = BTreeMap::new();
  // targets every import of which is a source-phase import
  let mut only_source: BTreeMap<String, bool> = BTreeMap::new();
  let mut first: BTreeMap<String, Option<String>> = BTreeMap::new();
  let urls: Vec<String> = w.descs.keys().cloned().collect();
  for u in &urls {
    let d = w.descs.get(u).unwrap().clone();
    let mut note = |text: &str, carries: bool, attr: Option<String>| {
      let t = final_target(w, &resolve_text(w, u, text));
      let c = can.entry(t.clone()).or_insert(true);
      *c = *c && carries;
      // `carries == None`-style callers (pragmas, roots...) are never source
      // phase; items report theirs through `attr_is_source` below
      first.entry(t).or_insert(attr);
    };
    for it in &d.items {
      let t = final_target(w, &resolve_text(w, u, &it.spec));
      let o = only_source.entry(t).or_insert(true);
      *o = *o && it.form.is_source_phase();
      if let Some((_, pt)) = &it.types_pragma {
        let t = final_target(w, &resolve_text(w, u, pt));
        only_source.insert(t, false);
      }
      // an attribute on an import with a types pragma also applies to the
      // pragma's target, so such imports carry none
      note(
        &it.spec,
        form_carries_attr(it.form)
          && d.lang.is_script()
          && it.types_pragma.is_none(),
        it.attr.clone(),
      );
      if let Some((_, t)) = &it.types_pragma {
        note(t, false, None);
      }
    }
    for t in d
      .self_types
      .iter()
      .chain(d.x_typescript_types.iter())
      .chain(d.source_map.iter())
    {
      note(t, false, None);
      let ft = final_target(w, &resolve_text(w, u, t));
      only_source.insert(ft, false);
    }
    for t in d.jsx_import_source.iter().chain(d.jsx_import_source_types.iter()) {
      note(&format!("{}/jsx-runtime", t), false, None);
    }
  }
  for r in w.roots.clone() {
    let t = final_target(w, &r);
    can.insert(t, false);
  }
  for (_, imps) in w.imports.clone() {
    for i in imps {
      let t = final_target(w, &i);
      can.insert(t, false);
    }
  }
  if let Some(r) = w.resolver.clone() {
    for t in r.map.values().chain(r.types_map.values()).chain(r.resolve_types.values()) {
      let t = final_target(w, t);
      // reached through the resolver as a module: neither attributes nor
      // source phase for the imports that name it by url
      only_source.insert(t.clone(), false);
      can.insert(t, false);
    }
  }
  // pass 2: rewrite
  for u in &urls {
    let mut d = w.descs.get(u).unwrap().clone();
    let mut changed = false;
    for it in &mut d.items {
      let t = final_target(w, &resolve_text(w, u, &it.spec));
      // a text the resolver maps (possibly only for types) reaches a target
      // that other imports reach by its url: no attribute on such imports
      let mapped = w.resolver.as_ref().is_some_and(|r| {
        r.map.contains_key(&it.spec) || r.types_map.contains_key(&it.spec)
      });
      let attr = if *can.get(&t).unwrap_or(&false) && !mapped {
        first.get(&t).cloned().unwrap_or(None)
      } else {
        None
      };
      if form_carries_attr(it.form) && it.attr != attr {
        it.attr = attr;
        changed = true;
      }
      if it.form.is_source_phase() && it.types_pragma.is_some() {
        // the pragma's target would be loaded at source phase as well
        it.types_pragma = None;
        changed = true;
      }
      if it.form.is_source_phase()
        && (!t.ends_with(".wasm")
          || !*only_source.get(&t).unwrap_or(&false)
          || w.roots.iter().any(|r| final_target(w, r) == t))
      {
        it.form = if it.form == Form::Source {
          Form::Default
        } else {
          Form::Dynamic
        };
        it.attr = None;
        changed = true;
      }
    }
    if changed {
      w.add_desc(d);
    }
  }
  refresh_aliases(w);
}

/// An alias (a url answered with another final url) serves exactly what the
/// final url serves.
pub fn refresh_aliases(w: &mut World) {
  let aliases: Vec<(String, String)> = w
    .remote
    .iter()
    .filter_map(|(u, e)| match e {
      Entry::Module {
        final_url: Some(to),
        ..
      } => Some((u.clone(), to.clone())),
      _ => None,
    })
    .collect();
  for (from, to) in aliases {
    if let Some(Entry::Module { bytes, headers, .. }) = w.remote.get(&to).cloned()
    {
      w.remote.insert(
        from,
        Entry::Module {
          bytes,
          headers,
          final_url: Some(to),
        },
      );
    }
  }
}
