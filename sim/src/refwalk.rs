//! Reference walk over a `Shape`: a declarative least fixpoint restating
//! which specifiers a walk yields and which errors it reports, order-free.

use std::collections::BTreeSet;

use deno_media_type::MediaType;

use crate::shape::DepShape;
use crate::shape::ModShape;
use crate::shape::ResShape;
use crate::shape::Shape;
use crate::shape::SlotShape;

#[derive(Clone, Debug)]
pub struct WalkOpts {
  /// 0 All, 1 CodeOnly, 2 TypesOnly
  pub kind: u8,
  pub follow_dynamic: bool,
  /// 0 True, 1 False, 2 Custom(predicate = url hash parity with `salt`)
  pub check_js: u8,
  pub check_js_salt: u64,
  pub prefer_fast_check: bool,
}

impl WalkOpts {
  pub fn include_types(&self) -> bool {
    self.kind != 1
  }
  pub fn check_js_for(&self, spec: &str) -> bool {
    match self.check_js {
      0 => true,
      1 => false,
      _ => crate::rng::hash_str(self.check_js_salt, spec) % 2 == 0,
    }
  }
  pub fn is_checkable(&self, spec: &str, mt: MediaType) -> bool {
    match mt {
      MediaType::TypeScript
      | MediaType::Mts
      | MediaType::Cts
      | MediaType::Dts
      | MediaType::Dmts
      | MediaType::Dcts
      | MediaType::Tsx
      | MediaType::Json
      | MediaType::Wasm => true,
      MediaType::JavaScript
      | MediaType::Jsx
      | MediaType::Mjs
      | MediaType::Cjs => self.check_js_for(spec),
      _ => false,
    }
  }
}

#[derive(Clone, Debug, PartialEq, Eq, PartialOrd, Ord)]
pub enum Yield {
  Module(String),
  Err(String),
  Redirect(String, String),
}

/// Canonical form of a reported error: (class, variant, specifier-or-text,
/// range as displayed).
pub type ErrKey = (String, String, String, String);

fn deps_for<'a>(m: &'a ModShape, spec: &str, o: &WalkOpts) -> &'a [DepShape] {
  let check_types = o.include_types() && o.is_checkable(spec, m.mt);
  if check_types && o.prefer_fast_check {
    if let Some(fc) = &m.fc_deps {
      return fc;
    }
  }
  &m.deps
}

/// The set a walk from `roots` yields, plus the specifiers whose
/// dependencies are skipped (`skip`: skip_previous_dependencies after them).
pub fn reference_walk(
  shape: &Shape,
  roots: &[String],
  o: &WalkOpts,
  skip: &BTreeSet<String>,
) -> BTreeSet<Yield> {
  let mut seen: BTreeSet<String> = BTreeSet::new();
  let mut work: Vec<String> = vec![];
  let mut out = BTreeSet::new();
  let mut push = |s: &str, seen: &mut BTreeSet<String>, work: &mut Vec<String>| {
    if seen.insert(s.to_string()) {
      work.push(s.to_string());
    }
  };
  for r in roots {
    push(r, &mut seen, &mut work);
  }
  for (_, deps) in &shape.imports {
    for d in deps {
      if let Some(t) = d.code.ok() {
        push(t, &mut seen, &mut work);
      }
      if o.include_types() {
        if let Some(t) = d.typ.ok() {
          push(t, &mut seen, &mut work);
        }
      }
    }
  }
  while let Some(s) = work.pop() {
    match shape.slots.get(&s) {
      Some(SlotShape::Module(m)) => {
        if m.kind == "js" && o.include_types() {
          if let Some((_, ResShape::Ok(t, _))) = &m.types_dep {
            push(t, &mut seen, &mut work);
            // replaced by its types dependency - unless that is the module
            // itself
            if o.kind == 2 && *t != s {
              continue;
            }
          } else if o.kind == 2 && !o.is_checkable(&s, m.mt) {
            continue;
          }
        }
        out.insert(Yield::Module(s.clone()));
        if skip.contains(&s) {
          continue;
        }
        for d in deps_for(m, &s, o) {
          if !d.is_dynamic || o.follow_dynamic {
            if let Some(t) = d.code.ok() {
              push(t, &mut seen, &mut work);
            }
            if o.include_types() {
              if let Some(t) = d.typ.ok() {
                push(t, &mut seen, &mut work);
              }
            }
          }
        }
      }
      Some(SlotShape::Err { .. }) => {
        out.insert(Yield::Err(s.clone()));
      }
      None => {
        if let Some(to) = shape.redirects.get(&s) {
          out.insert(Yield::Redirect(s.clone(), to.clone()));
          if !skip.contains(&s) {
            push(to, &mut seen, &mut work);
          }
        }
      }
    }
  }
  out
}

fn scheme(u: &str) -> &str {
  u.split(':').next().unwrap_or("")
}

/// What `ModuleGraph::resolve` is specified to do for the error iterator: the
/// final specifier after following recorded redirects (reference: unbounded,
/// seen-set).
fn follow_redirects_only<'a>(shape: &'a Shape, spec: &'a str) -> &'a str {
  let mut cur = spec;
  let mut seen = BTreeSet::new();
  seen.insert(cur.to_string());
  while let Some(n) = shape.redirects.get(cur) {
    if shape.slots.contains_key(cur) {
      break;
    }
    if !seen.insert(n.clone()) {
      break;
    }
    cur = n.as_str();
  }
  cur
}

fn check_resolution(
  shape: &Shape,
  referrer: &str,
  types: bool,
  text: &str,
  res: &ResShape,
  is_dynamic: bool,
  o: &WalkOpts,
) -> Option<ErrKey> {
  let class = if types { "types-resolution" } else { "resolution" };
  match res {
    ResShape::None => None,
    ResShape::Err(variant, with_range) => Some((
      class.to_string(),
      variant.clone(),
      with_range.clone(),
      String::new(),
    )),
    ResShape::Ok(spec, range) => {
      let rs = scheme(referrer);
      let ss = scheme(spec);
      if rs == "https" && ss == "http" {
        Some((
          class.to_string(),
          "InvalidDowngrade".into(),
          spec.clone(),
          range.clone(),
        ))
      } else if (rs == "https" || rs == "http")
        && ss == "file"
        // "a literal `file:` URL": the text itself is an absolute file URL
        // (however it is spelled: file:///a, file:/a, file:a, FILE:///a, with
        // leading white space), as opposed to something a resolver mapped to
        // one
        && url::Url::parse(text).is_ok_and(|u| u.scheme() == "file")
      {
        Some((
          class.to_string(),
          "InvalidLocalImport".into(),
          spec.clone(),
          range.clone(),
        ))
      } else if o.follow_dynamic {
        let fin = follow_redirects_only(shape, spec);
        match shape.slots.get(fin) {
          Some(SlotShape::Err {
            is_missing: true,
            at,
            referrer_range,
            ..
          }) => {
            if is_dynamic {
              Some((
                "module".into(),
                "MissingDynamic".into(),
                at.clone(),
                range.clone(),
              ))
            } else {
              Some((
                "module".into(),
                "Missing".into(),
                at.clone(),
                referrer_range.clone().unwrap_or_default(),
              ))
            }
          }
          _ => None,
        }
      } else {
        None
      }
    }
  }
}

/// The multiset of errors a walk's `errors()` reports.
pub fn reference_errors(
  shape: &Shape,
  roots: &[String],
  o: &WalkOpts,
) -> Vec<ErrKey> {
  reference_errors_with_optional(shape, roots, o).0
}

/// (required, optional): when dynamic imports are followed, a missing module
/// is reported at the edges that lead to it (so that a dynamic edge can say
/// "missing dynamic import"); its own entry then need not be reported again -
/// but it may be (a root is visited before any edge to it is looked at), and
/// it must be when no checked edge leads to it (a root, a configured import,
/// the type target of a module whose types are not checked).
pub fn reference_errors_with_optional(
  shape: &Shape,
  roots: &[String],
  o: &WalkOpts,
) -> (Vec<ErrKey>, Vec<ErrKey>) {
  let yielded = reference_walk(shape, roots, o, &BTreeSet::new());
  let mut errs = vec![];
  let mut optional = vec![];
  let mut surfaced: BTreeSet<String> = BTreeSet::new();
  let mut missing_entries: Vec<ErrKey> = vec![];
  let mut note = |e: &ErrKey, surfaced: &mut BTreeSet<String>| {
    if e.0 == "module" && (e.1 == "Missing" || e.1 == "MissingDynamic") {
      surfaced.insert(e.2.clone());
    }
  };
  for y in &yielded {
    match y {
      Yield::Module(s) => {
        let Some(SlotShape::Module(m)) = shape.slots.get(s) else {
          continue;
        };
        if o.include_types() {
          if let Some((text, res)) = &m.types_dep {
            if let Some(e) =
              check_resolution(shape, s, true, text, res, false, o)
            {
              note(&e, &mut surfaced);
              errs.push(e);
            }
          }
        }
        let check_types = o.include_types() && o.is_checkable(s, m.mt);
        for d in deps_for(m, s, o) {
          if o.follow_dynamic || !d.is_dynamic {
            if let Some(e) = check_resolution(
              shape,
              s,
              false,
              &d.key,
              &d.code,
              d.is_dynamic,
              o,
            ) {
              note(&e, &mut surfaced);
              errs.push(e);
            }
            if check_types {
              if let Some(e) = check_resolution(
                shape,
                s,
                true,
                // the text that was resolved for the type target
                d.deno_types.as_deref().unwrap_or(&d.key),
                &d.typ,
                d.is_dynamic,
                o,
              ) {
                note(&e, &mut surfaced);
              errs.push(e);
              }
            }
          }
        }
      }
      Yield::Err(s) => {
        if let Some(SlotShape::Err {
          is_missing,
          variant,
          at,
          referrer_range,
          ..
        }) = shape.slots.get(s)
        {
          let key: ErrKey = (
            "module".into(),
            variant.clone(),
            at.clone(),
            referrer_range.clone().unwrap_or_default(),
          );
          if o.follow_dynamic && *is_missing {
            missing_entries.push(key);
          } else {
            errs.push(key);
          }
        }
      }
      Yield::Redirect(..) => {}
    }
  }
  for k in missing_entries {
    if surfaced.contains(&k.2) {
      optional.push(k);
    } else {
      errs.push(k);
    }
  }
  errs.sort();
  optional.sort();
  (errs, optional)
}

/// Canonical form of an error actually reported by deno_graph.
pub fn err_key(e: &deno_graph::ModuleGraphError) -> ErrKey {
  use deno_graph::ModuleGraphError as E;
  match e {
    E::ModuleError(me) => (
      "module".into(),
      crate::shape::variant_name(&format!("{:?}", me.as_kind())),
      me.specifier().to_string(),
      me.maybe_referrer().map(|r| r.to_string()).unwrap_or_default(),
    ),
    E::ResolutionError(re) | E::TypesResolutionError(re) => {
      let class = if matches!(e, E::ResolutionError(_)) {
        "resolution"
      } else {
        "types-resolution"
      };
      use deno_graph::ResolutionError as R;
      match re {
        R::InvalidDowngrade { specifier, range }
        | R::InvalidLocalImport { specifier, range } => (
          class.into(),
          crate::shape::variant_name(&format!("{:?}", re)),
          specifier.to_string(),
          range.to_string(),
        ),
        _ => (
          class.into(),
          crate::shape::variant_name(&format!("{:?}", re)),
          re.to_string_with_range(),
          String::new(),
        ),
      }
    }
  }
}
