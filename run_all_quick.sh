#!/bin/sh
# runs every claimed check's quick command; prints one line per check
cd "$(dirname "$0")"
for c in $(python3 -c "import json;print(' '.join(x['property_id'] for x in json.load(open('MANIFEST.json'))['checks']))") "$@"; do
  s=$(date +%s)
  out=$(./check $c quick 2>&1); code=$?
  e=$(date +%s)
  echo "$c exit=$code $((e-s))s $(echo "$out" | grep -E '^VIOLATION|HARNESS' | head -2 | tr '\n' ' ') $(echo "$out" | grep -c '^KNOWN-FINDING') known"
done
