#!/usr/bin/env python3
"""Store a confirmed seeded change under /verif/seeded/<id>/.

usage: tools_store_seeded.py <collect-dir>/<id> <eval-log> [<eval-log>...] [--note "..."]

<collect-dir>/<id>/ holds patch.diff, demo.rs, agent_meta.json (written by the
sub-agent) and confirmed.txt (written by the confirmation script run in a
scratch worktree).  The eval logs are the outputs of tools_eval_mutation.sh.
"""
import json
import os
import re
import shutil
import sys

args = sys.argv[1:]
note = None
if "--note" in args:
    i = args.index("--note")
    note = args[i + 1]
    del args[i : i + 2]
src = args[0].rstrip("/")
logs = args[1:]
mid = os.path.basename(src)
dst = os.path.join("/verif/seeded", mid)
os.makedirs(dst, exist_ok=True)
shutil.copy(os.path.join(src, "patch.diff"), os.path.join(dst, "patch.diff"))
shutil.copy(os.path.join(src, "demo.rs"), os.path.join(dst, "demo.rs"))
agent = json.load(open(os.path.join(src, "agent_meta.json")))
confirmed = open(os.path.join(src, "confirmed.txt")).read().splitlines()

detection = {}
for lg in logs:
    cur = None
    for line in open(lg, errors="replace"):
        m = re.match(r"== (\S+) check=(\S+) exit=(\d+)", line)
        if m:
            cur = None
            if m.group(1) == mid:
                cur = m.group(2)
                h = detection.setdefault(cur, {"history": []})
                h["history"].append({"log": os.path.basename(lg), "exit": int(m.group(3))})
                h["exit"] = int(m.group(3))
                h.pop("violation", None)
            continue
        if cur and line.startswith("violation:") and "violation" not in detection[cur]:
            detection[cur]["violation"] = line.strip()[:400]
for c, h in detection.items():
    exits = [x["exit"] for x in h["history"]]
    h["missed_at_first"] = exits[0] == 0 and exits[-1] == 1

meta = {
    "property": agent.get("property", re.sub(r"b?-m\d+$", "", mid)),
    "summary": agent.get("summary") or agent.get("change") or agent.get("what"),
    "needs_to_manifest": agent.get("needs_to_manifest") or agent.get("needs"),
    "origin": "written by an independent sub-agent given only the property text and a scratch worktree of /repo",
    "agent_meta": agent,
    "confirmed_by_me": {
        "how": "scratch worktree under /tmp/mut at /repo HEAD: demo test run on the clean tree, then with patch.diff applied; `cargo test --offline --lib`, `--test integration_test` and `--test specs` with the patch applied",
        "result": confirmed,
    },
    "detection": detection,
    "detection_how": "git -C /repo apply patch.diff; ./check <ID> quick; git -C /repo checkout -- .",
}
if note:
    meta["note"] = note
json.dump(meta, open(os.path.join(dst, "meta.json"), "w"), indent=1)
print(mid, {k: [x["exit"] for x in v["history"]] for k, v in detection.items()})
