#!/bin/sh
# refresh the scratch evaluation copy of /verif (sources only)
rsync -a --exclude target --exclude replays --exclude .git --exclude Cargo.toml /verif/sim/ /var/tmp/evalenv/verif/sim/
rsync -a /verif/check /verif/known_findings.json /var/tmp/evalenv/verif/
