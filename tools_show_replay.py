#!/usr/bin/env python3
import json,sys
r=json.load(open(sys.argv[1]))
print('SIG:',r['signature']); print('MSG:',r['message'][:600]); print('shrink',r['shrink_executions'],'orig',r['original_tape_len'], {k:len(v) for k,v in r['tapes'].items()})
d=r['detail']
for k in ('plan','sched','hash_seed','sem','path','baseline','variant','cause'):
    if k in d: print(k,':',json.dumps(d[k])[:400])
w=d.get('world') or d.get('case',{}).get('world')
for k in ('walk_options','roots','specifier','hops_to_result'):
    if k in d: print(k,':',json.dumps(d[k])[:300])
if 'case' in d:
    for k in ('family_member','sem','sched'): print(k,':',json.dumps(d['case'].get(k))[:300])
if w:
    for u,e in w['remote'].items():
        print('---',u, json.dumps(e)[:int(sys.argv[2]) if len(sys.argv)>2 else 300])
    for u,e in w['cache'].items():
        print('cache:',u, json.dumps(e)[:200])
    print('roots',w['roots'],'imports',w['imports'],'lock',json.dumps(w['lockfile'])[:300],'resolver',w['resolver'],'npm',w['npm'])
