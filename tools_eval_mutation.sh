#!/bin/sh
# usage: tools_eval_mutation.sh <dir with patch.diff> <check ids...>
# applies the patch to the repository, runs the given checks (quick), undoes the patch.
# REPO_DIR / VERIF_DIR (default /repo, /verif) allow a scratch copy (a worktree of /repo
# plus a copy of /verif whose sim/Cargo.toml points at it) to be used for development
# iterations, so that /repo itself stays free; recorded detections come from /repo.
D="$(cd "$1" && pwd)"; shift
R="${REPO_DIR:-/repo}"; V="${VERIF_DIR:-/verif}"
cd "$R" || exit 2
git diff --quiet || { echo "repo dirty"; exit 2; }
git apply "$D/patch.diff" || { echo "patch does not apply"; exit 2; }
for c in "$@"; do
  out=$(cd "$V" && VERIF_MAX_WALL_S=${VERIF_MAX_WALL_S:-200} ./check $c quick 2>&1)
  code=$?
  echo "== $(basename $D) check=$c exit=$code"
  echo "$out" | grep -E "^VIOLATION|^violation|HARNESS|cases in" | cut -c1-400
done
git -C "$R" checkout -- .
