#!/bin/sh
# usage: tools_eval_mutation.sh <dir with patch.diff> <check ids...>
# applies the patch to /repo, runs the given checks (quick), undoes the patch
D="$1"; shift
cd /repo || exit 2
git diff --quiet || { echo "repo dirty"; exit 2; }
git apply "$D/patch.diff" || { echo "patch does not apply"; exit 2; }
for c in "$@"; do
  out=$(cd /verif && VERIF_MAX_WALL_S=200 ./check $c quick 2>&1)
  code=$?
  echo "== $(basename $D) check=$c exit=$code"
  echo "$out" | grep -E "^VIOLATION|^violation|HARNESS|cases in" | cut -c1-400
done
git -C /repo checkout -- .
