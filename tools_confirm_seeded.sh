#!/bin/sh
# usage: tools_confirm_seeded.sh <worktree> <outdir> <batch-id e.g. C18d> <m1|m2> <collect-dir>
# Confirms a sub-agent's seeded change in a scratch worktree of /repo (never in /repo itself):
#   demo passes on the clean tree, fails with the patch; lib / integration / spec tests pass with the patch.
# Writes <collect-dir>/<batch-id>-<mN>/{patch.diff,demo.rs,agent_meta.json,confirmed.txt}
WT="$1"; OUT="$2"; ID="$3"; M="$4"; COL="$5"
export CARGO_NET_OFFLINE=true
T="seeded_${ID}_${M}"
D="$COL/${ID}-${M}"
mkdir -p "$D"
cp "$OUT/$M.patch.diff" "$D/patch.diff"; cp "$OUT/$M.demo.rs" "$D/demo.rs"; cp "$OUT/$M.meta.json" "$D/agent_meta.json"
cd "$WT" || exit 2
git checkout -- src 2>/dev/null
git diff --quiet -- src || { echo "worktree src dirty"; exit 2; }
[ "$(git rev-parse HEAD)" = "$(git -C /repo rev-parse HEAD)" ] || { echo "worktree not at /repo HEAD"; exit 2; }
cp "$D/demo.rs" "tests/$T.rs"
: > "$D/confirmed.txt"
r=$(cargo test --offline --test "$T" 2>&1 | grep -E "^test result" | head -1); echo "clean: $r" >> "$D/confirmed.txt"
git apply "$D/patch.diff" || { echo "patch does not apply" >> "$D/confirmed.txt"; exit 2; }
r=$(cargo test --offline --test "$T" 2>&1 | grep -E "^test result|error\[|could not compile" | head -1); echo "mutated: $r" >> "$D/confirmed.txt"
r=$(cargo test --offline --lib 2>&1 | grep -E "^test result" | head -1); echo "lib: $r" >> "$D/confirmed.txt"
r=$(cargo test --offline --test integration_test 2>&1 | grep -E "^test result" | head -1); echo "integration: $r" >> "$D/confirmed.txt"
r=$(cargo test --offline --test specs 2>&1 | grep -E "tests passed|failed|^test result" | tail -1); echo "specs: $r" >> "$D/confirmed.txt"
git checkout -- src
cat "$D/confirmed.txt"
