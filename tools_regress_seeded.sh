#!/bin/sh
# re-runs, for every stored seeded change, the quick check(s) recorded as detecting it
# usage: tools_regress_seeded.sh <logfile>
LOG=${1:-/tmp/seeded-regress.log}
: > "$LOG"
cd /verif
for d in /verif/seeded/*/; do
  [ -f "$d/patch.diff" ] || continue
  checks=$(python3 -c "
import json,sys
d=json.load(open('$d/meta.json'))
print(' '.join(k for k,v in d.get('detection',{}).items() if v.get('exit')==1))")
  [ -n "$checks" ] || { echo "== $(basename $d) NO-DETECTING-CHECK" >> "$LOG"; continue; }
  ./tools_eval_mutation.sh "${d%/}" $checks >> "$LOG" 2>&1
done
echo DONE >> "$LOG"
