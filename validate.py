#!/usr/bin/env python3
import json,jsonschema,glob,sys
jsonschema.validate(json.load(open('/verif/MANIFEST.json')), json.load(open('/root/.vp/MANIFEST.schema.json')))
es=json.load(open('/root/.vp/EVIDENCE.schema.json'))
m=json.load(open('/verif/MANIFEST.json'))
ok=True
for c in m['checks']:
    f=c['evidence_file']
    try:
        jsonschema.validate(json.load(open(f)), es)
    except Exception as e:
        ok=False; print('BAD', f, str(e)[:300])
print('manifest ok; evidence', 'ok' if ok else 'BAD', [c['property_id'] for c in m['checks']])
